"""C20 - Packer round-trips any nested structure (operation histories against a
reference model, with rejected requests and caller mutations interleaved).

One Packer is a small stateful server: caches filled by the two getters gate
what the two constructors may do, so its behaviour depends on the order of
calls.  A run = one generated structure + aliasing pattern + one history of
operations on ONE Packer (plus, with some probability, a second Packer on the
same structure that sees a different order of calls: both must agree).
"""
from __future__ import annotations

import copy
import warnings

import torch

from xsim.probe import SIM

PID = "C20"
LEVEL = "exploration"
TIERS = {
    "quick": {"runs": 80000, "batch": 400, "timeout_s": 300, "max_ops": 10, "shrink_budget": 250},
    "thorough": {"runs": 600000, "batch": 2000, "timeout_s": 900, "max_ops": 14, "shrink_budget": 400},
}
RULE = ("Each run draws a nested structure (lists, dicts, attribute-bearing objects incl. one whose class forbids assignment, nn.Module, containers referenced twice, tuples and "
        "non-tensor leaves; <=12 tensor slots; nesting <=4; shapes 0-d..2-d incl. zero-numel and the "
        "zero-tensor structure), an aliasing pattern of its slots over a pool of distinct tensors, and a "
        "history of <=10 (quick) operations on one Packer: list/flat getters, list/flat constructors with "
        "valid and invalid arguments, caller mutation of a returned structure, of the list a getter returned, of the "
        "original. Oracle = reference model (slots in traversal order, unique = first occurrence by identity); a constructor "
        "must succeed once EITHER getter of the same unique mode has been called. "
        "A case is non-trivial iff the structure has >=1 container and the history contains >=1 constructor "
        "call that the model says must succeed; distinct = distinct (structure shape signature, alias "
        "partition, op-kind sequence) triples.")
ASSUMPTIONS = [
    "structures are acyclic; a mutable container may be referenced twice (then, in the non-unique interface, the caller "
    "supplies one tensor per physical place); tensors may alias freely",
    "all tensors float64; 'must succeed' is demanded only after the prerequisite getter the error message documents",
    "the flat-tensor constructor is given a tensor shaped like what get_param_tensor returned",
]
REAL = ["xitorch.Packer (xitorch/_core/packer.py) from /repo working tree", "copy.deepcopy", "torch"]
STUB = ["generated structures and attribute-bearing objects (harness classes Bag, and a small torch.nn.Module)",
        "the caller (operation history, invalid requests, mutations)"]

SHAPES = [(), (2,), (1,), (3,), (2, 2), (1, 3), (0,), (2, 1, 2)]


class Bag(object):
    """attribute-bearing object (has __dict__)"""
    def __init__(self):
        pass


class FrozenBag(object):
    """attribute-bearing object whose class intercepts assignment (like a frozen dataclass): it can only be
    filled through its __dict__"""

    def __setattr__(self, k, v):
        raise AttributeError("FrozenBag is read-only")

    def __delattr__(self, k):
        raise AttributeError("FrozenBag is read-only")


import enum
import types


class Color(enum.Enum):
    RED = 1
    BLUE = 2


def is_atomic(o):
    """classes, functions and modules carry a __dict__ but are content, not containers (deepcopy hands them back
    as they are): the model does not look inside them"""
    return isinstance(o, (type, types.FunctionType, types.BuiltinFunctionType, types.MethodType, types.ModuleType))


def make_func(t):
    def activation(x):
        return x
    activation.scale = t         # a tensor carried by a function object: content, never a slot
    return activation


class Leaf(object):
    """mutable non-tensor, non-container content (has __slots__, no __dict__)"""
    __slots__ = ("v",)

    def __init__(self, v):
        self.v = v

    def __eq__(self, o):
        return isinstance(o, Leaf) and o.v == self.v

    def __hash__(self):
        return hash(self.v)


# ----------------------------------------------------------------- generation
def gen_structure(cs, pool, budget, depth, sig, root=False, in_tuple=False, done=None):
    """returns a structure; budget = [remaining tensor slots]; done = finished mutable containers of this
    structure (candidates for being referenced a second time: the structure may be a DAG, never cyclic)"""
    if done is None:
        done = []
    if depth >= 4:
        kinds = [0, 5]
    else:
        kinds = [0, 1, 2, 3, 4, 5, 6, 7] if not root else [1, 2, 3, 0, 6, 7]
        if done and not root and not in_tuple:
            kinds = kinds + [8]
    if in_tuple:   # tensors inside tuples are generated too (kind 0); see "tuple mode" in run()
        kinds = [x for x in kinds if x != 6]
    W = {0: 5, 1: 3, 2: 3, 3: 3, 4: 1, 5: 2, 6: 1, 7: 1, 8: 1}
    k = kinds[cs.weighted([W[x] for x in kinds], "kind")]
    if k == 8:      # the same container object a second time
        j = cs.draw(len(done), "shared")
        node, ntens = done[j]
        if budget[0] < ntens:
            sig.append("n")
            return None
        budget[0] -= ntens
        sig.append("&%d" % j)
        return ("__ref__", node)
    b0 = budget[0]
    if k == 0:  # tensor slot
        if budget[0] <= 0:
            sig.append("n")
            return None
        budget[0] -= 1
        i = cs.draw(len(pool), "pool")
        if in_tuple and not pool[i].is_leaf:
            # a non-leaf tensor inside a tuple cannot be deep-copied by torch at all; the statement does not
            # cover tensors inside tuples, so that combination is left out
            sig.append("n")
            return None
        sig.append("T")
        return ("__slot__", i)
    if k == 5:  # non-tensor leaf
        j = cs.draw(9, "leaf")
        sig.append("l%d" % j)
        if j == 7:
            return ("__func__", cs.draw(len(pool), "fpool"))
        return [7, "s", 2.5, None, ("__leaf__", 3), True, ("__class__",), None, ("__enum__",)][j]
    if k == 6:  # a small torch.nn.Module as attribute-bearing object
        if budget[0] <= 0:
            sig.append("n")
            return None
        budget[0] -= 1
        i = cs.draw(len(pool), "pool")
        sig.append("M")
        return ("__module__", i)
    n = cs.randint(0, 3, "len")
    if k == 1:
        sig.append("[")
        r = [gen_structure(cs, pool, budget, depth + 1, sig, in_tuple=in_tuple, done=done) for _ in range(n)]
        sig.append("]")
        if not in_tuple:
            done.append((r, b0 - budget[0]))
        return r
    if k == 2:
        sig.append("{")
        r = {}
        for j in range(n):
            key = ["a", "b", 3, "k"][j] if cs.bool("keyorder") else ["z", 1, "b", "a"][j]
            if key in r:
                key = "k%d" % j
            r[key] = gen_structure(cs, pool, budget, depth + 1, sig, in_tuple=in_tuple, done=done)
        sig.append("}")
        if not in_tuple:
            done.append((r, b0 - budget[0]))
        return r
    if k in (3, 7):
        sig.append("<" if k == 3 else "<!")
        b = ("__bag__" if k == 3 else "__frozenbag__", [])
        for j in range(n):
            b[1].append((["x", "y", "w", "q"][j], gen_structure(cs, pool, budget, depth + 1, sig, in_tuple=in_tuple,
                                                              done=done)))
        sig.append(">")
        if not in_tuple:
            done.append((b, b0 - budget[0]))
        return b
    if k == 4:
        sig.append("(")
        r = ("__tuple__", [gen_structure(cs, pool, budget, depth + 1, sig, in_tuple=True, done=done) for _ in range(n)])
        sig.append(")")
        return r


def realise(spec, pool, memo=None):
    """turn the spec into real python objects holding the pool's tensors (a spec node referenced twice
    becomes one object referenced twice)"""
    if memo is None:
        memo = {}
    if isinstance(spec, tuple) and spec and spec[0] == "__ref__":
        return memo[id(spec[1])]
    if isinstance(spec, (list, dict)) or (isinstance(spec, tuple) and spec and spec[0] in ("__bag__", "__frozenbag__")):
        r = _realise(spec, pool, memo)
        memo[id(spec)] = r
        return r
    return _realise(spec, pool, memo)


def _realise(spec, pool, memo):
    if isinstance(spec, tuple) and spec and spec[0] == "__slot__":
        return pool[spec[1]]
    if isinstance(spec, tuple) and spec and spec[0] == "__leaf__":
        return Leaf(spec[1])
    if isinstance(spec, tuple) and spec and spec[0] == "__class__":
        return float
    if isinstance(spec, tuple) and spec and spec[0] == "__enum__":
        return Color.RED
    if isinstance(spec, tuple) and spec and spec[0] == "__func__":
        return make_func(pool[spec[1]])
    if isinstance(spec, tuple) and spec and spec[0] == "__module__":
        m = torch.nn.Module()
        t = pool[spec[1]]
        if isinstance(t, torch.nn.Parameter):
            m.register_parameter("p", t)
        else:
            m.register_buffer("p", t)
        return m
    if isinstance(spec, tuple) and spec and spec[0] in ("__bag__", "__frozenbag__"):
        b = Bag() if spec[0] == "__bag__" else FrozenBag()
        for name, s in spec[1]:
            b.__dict__[name] = realise(s, pool, memo)
        return b
    if isinstance(spec, tuple) and spec and spec[0] == "__tuple__":
        return tuple(realise(s, pool, memo) for s in spec[1])
    if isinstance(spec, list):
        return [realise(s, pool, memo) for s in spec]
    if isinstance(spec, dict):
        return {k: realise(s, pool, memo) for k, s in spec.items()}
    return spec


# ------------------------------------------------------- the reference model
def model_slots(obj, tuples=False):
    """tensor slots in the documented traversal order: list elements, dict values,
    __dict__ values.  tuples=False: a tuple is opaque content (tensors inside it are not
    slots and stay the original tensors); tuples=True: a tuple is traversed like a list.
    Either reading is accepted, but one Packer must follow ONE of them consistently in
    its getters and in its constructors."""
    res = []
    if isinstance(obj, torch.Tensor):
        res.append(obj)
    elif isinstance(obj, list) or (tuples and isinstance(obj, tuple)):
        for e in obj:
            res.extend(model_slots(e, tuples))
    elif isinstance(obj, dict):
        for e in obj.values():
            res.extend(model_slots(e, tuples))
    elif hasattr(obj, "__dict__") and not is_atomic(obj):
        for e in obj.__dict__.values():
            res.extend(model_slots(e, tuples))
    return res


def model_phys(obj, tuples=False, out=None):
    """for every slot occurrence (same order as model_slots) the physical place it lives in:
    (id of the container, key).  A container referenced twice yields the same places twice."""
    if out is None:
        out = []

    def walk(o, place):
        if isinstance(o, torch.Tensor):
            out.append(place)
        elif isinstance(o, list) or (tuples and isinstance(o, tuple)):
            for i, e in enumerate(o):
                walk(e, (id(o), i))
        elif isinstance(o, dict):
            for k, e in o.items():
                walk(e, (id(o), repr(k)))
        elif hasattr(o, "__dict__") and not is_atomic(o):
            for k, e in o.__dict__.items():
                walk(e, (id(o), k))
    walk(obj, ("root", 0))
    return out


def model_unique(slots):
    seen = {}
    uniq = []
    inverse = []
    for t in slots:
        if id(t) not in seen:
            seen[id(t)] = len(uniq)
            uniq.append(t)
        inverse.append(seen[id(t)])
    return uniq, inverse


def snapshot(obj):
    """deep structural snapshot with identities: used to show the original is untouched"""
    if isinstance(obj, torch.Tensor):
        return ("T", id(obj), tuple(obj.shape), obj._version, obj.detach().clone())
    if isinstance(obj, list):
        return ("L", id(obj), [snapshot(e) for e in obj])
    if isinstance(obj, dict):
        return ("D", id(obj), [(k, snapshot(v)) for k, v in obj.items()])
    if isinstance(obj, tuple):
        return ("U", id(obj), [snapshot(e) for e in obj])
    if isinstance(obj, (type, types.ModuleType, enum.Enum)):
        return ("P", repr(obj))
    if hasattr(obj, "__dict__"):
        return ("O", id(obj), type(obj), [(k, snapshot(v)) for k, v in obj.__dict__.items()])
    if isinstance(obj, Leaf):
        return ("F", id(obj), obj.v)
    return ("P", repr(obj))


def snap_equal(a, b):
    if a[0] != b[0]:
        return False
    if a[0] == "T":
        return a[1] == b[1] and a[2] == b[2] and a[3] == b[3] and torch.equal(a[4], b[4])
    if a[0] in ("L", "U"):
        return a[1] == b[1] and len(a[2]) == len(b[2]) and all(snap_equal(x, y) for x, y in zip(a[2], b[2]))
    if a[0] == "D":
        return a[1] == b[1] and [k for k, _ in a[2]] == [k for k, _ in b[2]] and \
            all(snap_equal(x[1], y[1]) for x, y in zip(a[2], b[2]))
    if a[0] == "O":
        return a[1] == b[1] and a[2] is b[2] and [k for k, _ in a[3]] == [k for k, _ in b[3]] and \
            all(snap_equal(x[1], y[1]) for x, y in zip(a[3], b[3]))
    return a == b


class Mismatch(Exception):
    def __init__(self, inv, detail):
        self.inv = inv
        self.detail = detail


TUPLE_SLOTS = [False]     # set per run once the Packer has shown which reading of tuples it follows
PAIR = {}                 # id(container in the reference twin) -> id(container in the result), per comparison
RPAIR = {}


def _pair(ref, res, path):
    """a container referenced twice in the original is one container referenced twice in the result, and
    two containers stay two"""
    a, b = id(ref), id(res)
    if PAIR.setdefault(a, b) != b:
        raise Mismatch("sharing", "%s: a container that occurs twice in the original became two containers" % path)
    if RPAIR.setdefault(b, a) != a:
        raise Mismatch("sharing", "%s: two containers of the original became one container" % path)


def compare_result(res, ref, expected, pos, foreign_ids, path="root"):
    """res: structure returned by the Packer; ref: pristine reference copy of the
    original structure (never handed to the Packer); expected: the list of tensors
    every slot must hold, in order; pos=[i] running slot index.
    foreign_ids: ids of mutable containers the result must not share."""
    if isinstance(ref, torch.Tensor):
        if pos[0] >= len(expected):
            raise Mismatch("slot_count", "more tensor slots in result than in model at %s" % path)
        e = expected[pos[0]]
        pos[0] += 1
        if not isinstance(res, torch.Tensor):
            raise Mismatch("slot_type", "%s: expected a tensor, got %s" % (path, type(res).__name__))
        if isinstance(e, tuple):   # ("value", tensor): flat interface, value + shape equality
            if tuple(res.shape) != tuple(e[1].shape) or not torch.equal(res.detach(), e[1].detach()):
                raise Mismatch("slot_value", "%s: slot %d holds wrong values/shape" % (path, pos[0] - 1))
        elif res is not e:
            raise Mismatch("slot_identity", "%s: slot %d does not hold the supplied tensor" % (path, pos[0] - 1))
        return
    if isinstance(ref, list):
        if type(res) is not type(ref) or len(res) != len(ref):
            raise Mismatch("shape", "%s: list expected with len %d, got %s" % (path, len(ref), _short(res)))
        if id(res) in foreign_ids:
            raise Mismatch("shared_container", "%s: list object is shared with %s" % (path, foreign_ids[id(res)]))
        _pair(ref, res, path)
        for i, (a, b) in enumerate(zip(res, ref)):
            compare_result(a, b, expected, pos, foreign_ids, "%s[%d]" % (path, i))
        return
    if isinstance(ref, dict):
        if type(res) is not type(ref) or list(res.keys()) != list(ref.keys()):
            raise Mismatch("shape", "%s: dict keys differ: %s" % (path, _short(res)))
        if id(res) in foreign_ids:
            raise Mismatch("shared_container", "%s: dict object is shared with %s" % (path, foreign_ids[id(res)]))
        _pair(ref, res, path)
        for k in ref:
            compare_result(res[k], ref[k], expected, pos, foreign_ids, "%s[%r]" % (path, k))
        return
    if isinstance(ref, tuple):
        if type(res) is not tuple or len(res) != len(ref):
            raise Mismatch("shape", "%s: tuple expected, got %s" % (path, _short(res)))
        for i, (a, b) in enumerate(zip(res, ref)):
            if TUPLE_SLOTS[0]:
                compare_result(a, b, expected, pos, foreign_ids, "%s(%d)" % (path, i))
            else:
                # opaque content: equal element-wise, tensors inside are NOT slots (they stay the original tensors)
                compare_opaque(a, b, foreign_ids, "%s(%d)" % (path, i))
        return
    if hasattr(ref, "__dict__") and not is_atomic(ref) and not isinstance(ref, enum.Enum):
        if type(res) is not type(ref) or list(res.__dict__.keys()) != list(ref.__dict__.keys()):
            raise Mismatch("shape", "%s: object attrs differ: %s" % (path, _short(res)))
        if id(res) in foreign_ids:
            raise Mismatch("shared_container", "%s: object is shared with %s" % (path, foreign_ids[id(res)]))
        _pair(ref, res, path)
        for k in ref.__dict__:
            compare_result(res.__dict__[k], ref.__dict__[k], expected, pos, foreign_ids, "%s.%s" % (path, k))
        return
    compare_opaque(res, ref, foreign_ids, path)


def compare_opaque(res, ref, foreign_ids, path):
    if isinstance(ref, types.FunctionType):
        # a function object is content: the same kind of function carrying an unchanged tensor
        if not isinstance(res, types.FunctionType) or res.__name__ != ref.__name__ or \
                not torch.equal(res.__dict__["scale"].detach(), ref.__dict__["scale"].detach()) or \
                res.__dict__["scale"] is not ref.__dict__["scale"]:
            raise Mismatch("content", "%s: function leaf (or the tensor it carries) changed" % path)
        return
    if isinstance(ref, (type, enum.Enum)):
        if res is not ref:
            raise Mismatch("content", "%s: class / enum member leaf changed" % path)
        return
    if isinstance(ref, torch.Tensor):
        # a tensor inside an opaque tuple is content: the same tensor or a copy of it, never something else
        if not isinstance(res, torch.Tensor) or tuple(res.shape) != tuple(ref.shape) or \
                not torch.equal(res.detach(), ref.detach()):
            raise Mismatch("opaque_tensor", "%s: tensor inside a tuple changed" % path)
        return
    if isinstance(ref, (list, dict)) or (hasattr(ref, "__dict__") and not is_atomic(ref)):
        if id(res) in foreign_ids:
            raise Mismatch("shared_container", "%s: container is shared with %s" % (path, foreign_ids[id(res)]))
        if type(res) is not type(ref):
            raise Mismatch("shape", "%s: type differs" % path)
        if isinstance(ref, list):
            if len(res) != len(ref):
                raise Mismatch("shape", "%s: length differs" % path)
            for i, (a, b) in enumerate(zip(res, ref)):
                compare_opaque(a, b, foreign_ids, "%s[%d]" % (path, i))
        elif isinstance(ref, dict):
            if list(res.keys()) != list(ref.keys()):
                raise Mismatch("shape", "%s: keys differ" % path)
            for k in ref:
                compare_opaque(res[k], ref[k], foreign_ids, "%s[%r]" % (path, k))
        else:
            if list(res.__dict__.keys()) != list(ref.__dict__.keys()):
                raise Mismatch("shape", "%s: attrs differ" % path)
            for k in ref.__dict__:
                compare_opaque(res.__dict__[k], ref.__dict__[k], foreign_ids, "%s.%s" % (path, k))
        return
    if isinstance(ref, tuple):
        if type(res) is not tuple or len(res) != len(ref):
            raise Mismatch("shape", "%s: tuple differs" % path)
        for i, (a, b) in enumerate(zip(res, ref)):
            compare_opaque(a, b, foreign_ids, "%s(%d)" % (path, i))
        return
    if isinstance(ref, Leaf):
        if not isinstance(res, Leaf) or res.v != ref.v:
            raise Mismatch("content", "%s: leaf content differs" % path)
        if id(res) in foreign_ids:
            raise Mismatch("shared_container", "%s: mutable leaf is shared with %s" % (path, foreign_ids[id(res)]))
        return
    if type(res) is not type(ref) or res != ref:
        raise Mismatch("content", "%s: non-tensor content differs: %r vs %r" % (path, res, ref))


def _short(x):
    s = repr(x)
    return s if len(s) < 120 else s[:117] + "..."


def container_ids(obj, tag, out, inside_opaque=False):
    """ids of every mutable container / mutable leaf reachable (also through tuples)"""
    if isinstance(obj, torch.Tensor):
        return
    if isinstance(obj, list):
        out[id(obj)] = tag
        for e in obj:
            container_ids(e, tag, out)
    elif isinstance(obj, dict):
        out[id(obj)] = tag
        for e in obj.values():
            container_ids(e, tag, out)
    elif isinstance(obj, tuple):
        for e in obj:
            container_ids(e, tag, out)
    elif hasattr(obj, "__dict__") and not is_atomic(obj) and not isinstance(obj, enum.Enum):
        out[id(obj)] = tag
        for e in obj.__dict__.values():
            container_ids(e, tag, out)
    elif isinstance(obj, Leaf):
        out[id(obj)] = tag


def keep_alive(obj, out):
    """append every container reachable from obj to out (so that no id() in the
    `foreign` map can be recycled after the caller mutates the structure)"""
    if isinstance(obj, torch.Tensor):
        return
    if isinstance(obj, (list, tuple)):
        out.append(obj)
        for e in obj:
            keep_alive(e, out)
    elif isinstance(obj, dict):
        out.append(obj)
        for e in obj.values():
            keep_alive(e, out)
    elif (hasattr(obj, "__dict__") and not is_atomic(obj) and not isinstance(obj, enum.Enum)) or isinstance(obj, Leaf):
        out.append(obj)
        for e in getattr(obj, "__dict__", {}).values():
            keep_alive(e, out)


def mutate_containers(obj, step):
    """the caller edits a structure it owns: returns number of edits"""
    n = 0
    if isinstance(obj, list):
        for e in list(obj):
            n += mutate_containers(e, step)
        obj.append("mut%d" % step)
        if len(obj) > 1:
            obj[0] = "clobbered%d" % step
        n += 1
    elif isinstance(obj, dict):
        for e in list(obj.values()):
            n += mutate_containers(e, step)
        obj["mut%d" % step] = step
        for k in list(obj.keys())[:1]:
            obj[k] = "clobbered%d" % step
        n += 1
    elif isinstance(obj, tuple):
        for e in obj:
            n += mutate_containers(e, step)
    elif isinstance(obj, Leaf):
        obj.v = "mut%d" % step
        n += 1
    elif hasattr(obj, "__dict__") and not isinstance(obj, torch.Tensor) and not is_atomic(obj) and \
            not isinstance(obj, enum.Enum):
        for e in list(obj.__dict__.values()):
            n += mutate_containers(e, step)
        obj.__dict__["mut%d" % step] = step
        for k in list(obj.__dict__.keys())[:1]:
            obj.__dict__[k] = "clobbered%d" % step
        n += 1
    return n


# ------------------------------------------------------------------ one run
def prereq_flat(st, u):
    # either getter of the same unique mode has shown the Packer the shapes (and with them the element counts):
    # the flat constructor must work after the list getter too (list getter -> flat constructor used to die in an
    # internal "Please report to Github" assertion)
    return bool(st["GT"][u] or st["GL"][u])


def make_pool(cs):
    npool = cs.randint(1, 6, "npool")
    g = torch.Generator()
    g.manual_seed(cs.draw(1000, "valseed"))
    pool = []
    desc = []
    for i in range(npool):
        shp = SHAPES[cs.draw(len(SHAPES), "shape")]
        kind = cs.draw(4, "tkind")   # 0 plain, 1 leaf requiring grad, 2 non-leaf, 3 nn.Parameter
        t = torch.randn(shp, generator=g, dtype=torch.float64)
        if kind == 1:
            t.requires_grad_()
        elif kind == 2:
            t = t.clone().requires_grad_() * 1.0
        elif kind == 3:
            t = torch.nn.Parameter(t)
        pool.append(t)
        desc.append((shp, kind))
    return pool, desc


def run(cs, cfg):
    from xitorch import Packer
    SIM.reset()
    viol = []
    stats = {}
    cases = []
    decoded = {"ops": []}

    def cnt(k, n=1):
        stats[k] = stats.get(k, 0) + n

    pool, pdesc = make_pool(cs)
    sig = []
    spec = gen_structure(cs, pool, [12], 0, sig, root=True)
    obj = realise(spec, pool)
    ref = realise(spec, pool)          # pristine twin: same tensors, separate containers
    slots = model_slots(ref)
    uniq, inverse = model_unique(slots)
    nslots, nuniq = len(slots), len(uniq)
    phys = model_phys(ref)
    dag = len(set(phys)) != len(phys)
    slots_t = model_slots(ref, tuples=True)
    tuple_tensors = len(slots_t) != len(slots)
    TUPLE_SLOTS[0] = False
    mode_known = [not tuple_tensors]
    decoded["structure"] = "".join(sig)
    decoded["pool"] = [str(d) for d in pdesc]
    decoded["slots"] = nslots
    decoded["unique"] = nuniq
    decoded["alias_partition"] = inverse
    decoded["tensors_inside_tuples"] = tuple_tensors
    zero = nslots == 0
    has_container = not isinstance(obj, torch.Tensor)

    orig_snap = snapshot(obj)
    try:
        with warnings.catch_warnings():
            warnings.simplefilter("ignore")
            packers = [Packer(obj)]
    except Exception as e:       # every generated structure is a legal input
        viol.append({"sig": {"inv": "init_raises", "op": "init", "exc": type(e).__name__, "zero": str(zero)},
                     "detail": "Packer(obj) raised %s: %s | structure=%s" % (type(e).__name__, str(e)[:200], decoded["structure"])})
        return {"violations": viol, "stats": stats, "cases": cases, "decoded": decoded,
                "digest": SIM.digest(), "evals": 1, "events": 0}
    if not snap_equal(orig_snap, snapshot(obj)):
        viol.append({"sig": {"inv": "original_modified", "op": "init", "zero": str(zero)},
                     "detail": "constructing the Packer modified the original"})
    two = cs.bool("twopackers", 1, 4)
    if two:
        packers.append(Packer(obj))
    # per packer: which getters have been called
    state = [{"GL": {True: False, False: False}, "GT": {True: False, False: False}} for _ in packers]
    results = []     # (packer index, result structure) still owned by the caller
    graveyard = []   # everything whose id() is in `foreign` stays alive, so ids are never recycled
    foreign = {}
    container_ids(obj, "the original object", foreign)
    orig_mutated = False
    nops = cs.randint(2, cfg["max_ops"], "nops")
    opseq = []
    must_succeed_ctor = 0
    g = torch.Generator()
    g.manual_seed(12345)

    def fresh(shape):
        return torch.randn(tuple(shape), generator=g, dtype=torch.float64)

    for step in range(nops):
        pi = cs.draw(len(packers), "which") if two else 0
        pk = packers[pi]
        st = state[pi]
        if step == 0 and cs.bool("getterfirst", 2, 3):
            op = cs.draw(2, "firstgetter")
        else:
            op = cs.weighted([3, 3, 6, 5, 2, 1], "op")
        u = not cs.bool("nonunique", 1, 3)
        if not mode_known[0] and op in (1, 2, 3):
            op = 0             # the first request on a structure with tensors inside tuples is a list getter:
                               # it shows which reading of tuples this Packer follows
        tgt = uniq if u else slots
        rec = {"step": step, "packer": pi}
        try:
            if op == 0:        # list getter
                rec.update(op="GL", unique=u)
                opseq.append("GL%d" % u)
                r = pk.get_param_tensor_list(unique=u)
                st["GL"][u] = True
                if not mode_known[0]:
                    mode_known[0] = True
                    cand = model_unique(slots_t)[0] if u else slots_t
                    if isinstance(r, list) and len(r) == len(cand) and len(cand) != len(tgt) and \
                            all(a is b for a, b in zip(r, cand)):
                        # tuples are traversed: from now on everything is judged under that reading
                        TUPLE_SLOTS[0] = True
                        slots = slots_t
                        phys = model_phys(ref, tuples=True)
                        uniq, inverse = model_unique(slots)
                        nslots, nuniq = len(slots), len(uniq)
                        zero = nslots == 0
                        tgt = uniq if u else slots
                        cnt("tuple_mode_traversed")
                    else:
                        cnt("tuple_mode_opaque")
                    rec["tuple_mode"] = "traversed" if TUPLE_SLOTS[0] else "opaque"
                if not isinstance(r, list) or len(r) != len(tgt) or any(a is not b for a, b in zip(r, tgt)):
                    raise Mismatch("getter_list", "get_param_tensor_list(unique=%s) returned %d tensors; model %d, "
                                   "or identities/order differ" % (u, len(r), len(tgt)))
                cnt("op.GL")
                if cs.bool("edit_getter_list", 1, 3):
                    # the caller edits the list it was handed (it is the caller's list): no later answer may change
                    if r:
                        r[0] = r[0] * 2.0
                        r.pop()
                    r.append(fresh((2,)))
                    rec["caller_edited_list"] = True
                    cnt("reach.getter_list_edited")
            elif op == 1:      # flat getter
                rec.update(op="GT", unique=u)
                opseq.append("GT%d" % u)
                r = pk.get_param_tensor(unique=u)
                st["GL"][u] = True
                st["GT"][u] = True
                if len(tgt) == 0:
                    if r is not None:
                        raise Mismatch("getter_flat", "expected None for a structure with no tensors")
                else:
                    exp = torch.cat([t.detach().reshape(-1) for t in tgt])
                    if not isinstance(r, torch.Tensor) or r.numel() != exp.numel() or \
                            not torch.equal(r.detach().reshape(-1), exp):
                        raise Mismatch("getter_flat", "get_param_tensor(unique=%s) values differ from the model" % u)
                cnt("op.GT")
            elif op in (2, 3):  # constructors
                flat = op == 3
                bad = cs.weighted([5, 1, 1], "argkind")   # 0 valid, 1 wrong length/numel, 2 wrong shape
                name = "CT" if flat else "CL"
                opseq.append("%s%d%s" % (name, u, "!" * (bad > 0)))
                rec.update(op=name, unique=u, arg=["valid", "wrong_len", "wrong_shape"][bad])
                prereq = prereq_flat(st, u) if flat else st["GL"][u]
                expected = None
                # where the caller's tensors come from: fresh ones, or the very objects the Packer listed (an identity
                # round trip: a wrapper that rebuilds its object with unchanged parameters)
                same_tensors = cs.bool("same_tensors", 1, 4)
                rec["tensors"] = "listed" if same_tensors else "fresh"
                if not flat:
                    new = list(tgt) if same_tensors else [fresh(t.shape) for t in tgt]
                    if not u and dag:
                        # positions that are one physical place (a container referenced twice) get one tensor:
                        # anything else has no single right answer
                        first = {}
                        new = [first.setdefault(p, x) for p, x in zip(phys, new)]
                    if bad == 1:
                        if cs.bool("longer") or len(new) == 0:
                            new = new + [fresh((2,))]
                        else:
                            new = new[:-1]
                    elif bad == 2:
                        if len(new) == 0:
                            bad = 0
                            rec["arg"] = "valid"
                        else:
                            j = cs.draw(len(new), "badidx")
                            new[j] = fresh(tuple(new[j].shape) + (2,))
                    arg = list(new)
                    arg_copy = list(new)
                    call = lambda: pk.construct_from_tensor_list(arg, unique=u)
                    if bad == 0:
                        expected = [new[inverse[i]] for i in range(nslots)] if u else list(new)
                else:
                    if len(tgt) == 0:
                        a = torch.empty(0, dtype=torch.float64)
                        if bad != 0 and prereq_flat(st, u):
                            a = fresh((1 + cs.draw(2, "extra0"),))
                            bad = 1
                            rec["arg"] = "wrong_numel"
                        else:
                            bad = 0
                            rec["arg"] = "valid"
                    elif len(tgt) == 1:
                        a = tgt[0] if same_tensors else fresh(tgt[0].shape)
                    else:
                        a = fresh((sum(t.numel() for t in tgt),))
                        if not u and dag:
                            first = {}
                            off = 0
                            for p, t in zip(phys, tgt):
                                seg = a[off:off + t.numel()]
                                if p in first:
                                    seg.copy_(first[p])
                                else:
                                    first[p] = seg.clone()
                                off += t.numel()
                    if bad != 0 and len(tgt) > 0:
                        a = fresh((a.numel() + 1 + cs.draw(2, "extra"),))
                        bad = 1
                        rec["arg"] = "wrong_numel"
                    if bad != 0 and not prereq_flat(st, u):
                        # without its getter the constructor raises anyway: that tells nothing about the argument
                        bad = 0 if len(tgt) == 0 else bad
                    call = lambda: pk.construct_from_tensor(a, unique=u)
                    if bad == 0:
                        parts = []
                        off = 0
                        for t in tgt:
                            parts.append(a[off:off + t.numel()].reshape(t.shape) if len(tgt) > 1 else a)
                            off += t.numel()
                        expected = [("value", parts[inverse[i]]) for i in range(nslots)] if u else \
                            [("value", p) for p in parts]
                try:
                    res = call()
                    raised = None
                except Exception as e:   # noqa
                    raised = e
                rec["prereq"] = bool(prereq)
                rec["raised"] = type(raised).__name__ if raised is not None else None
                if bad != 0:
                    cnt("fault.invalid_op")
                    if raised is None:
                        raise Mismatch("invalid_accepted", "%s accepted an invalid argument (%s)" % (name, rec["arg"]))
                    cnt("reach.invalid_rejected")
                else:
                    if raised is not None:
                        if prereq:
                            raise Mismatch("valid_rejected", "%s(unique=%s) raised %s: %s although its getter was "
                                           "called before" % (name, u, type(raised).__name__, raised))
                        cnt("reach.ctor_before_getter")
                    else:
                        if prereq:
                            must_succeed_ctor += 1
                        # a returned structure is never allowed to be wrong
                        pos = [0]
                        PAIR.clear()
                        RPAIR.clear()
                        compare_result(res, ref, expected, pos, foreign)
                        if pos[0] != len(expected):
                            raise Mismatch("slot_count", "result has %d tensor slots, model %d" % (pos[0], len(expected)))
                        if not flat and (len(arg) != len(arg_copy) or any(x is not y for x, y in zip(arg, arg_copy))):
                            raise Mismatch("argument_modified", "the caller's tensor list was modified")
                        if u and nslots > nuniq:
                            cnt("reach.aliased_rebuild")
                        if same_tensors and not zero:
                            cnt("reach.identity_round_trip")
                        if zero:
                            cnt("reach.zero_tensor_rebuild")
                        container_ids(res, "an earlier result (step %d)" % step, foreign)
                        results.append((pi, res))
                        cnt("op." + name)
            elif op == 4:      # the caller edits a structure it got back
                rec.update(op="mutate_result")
                opseq.append("MR")
                if results:
                    j = cs.draw(len(results), "whichres")
                    _, res = results.pop(j)
                    keep_alive(res, graveyard)
                    n = mutate_containers(res, step)
                    # its containers are now garbage for comparison purposes but must stay "foreign"
                    cnt("op.mutate_result")
                    if n:
                        cnt("reach.result_mutated")
            elif op == 5:      # the caller edits the original after constructing the Packer
                rec.update(op="mutate_original")
                opseq.append("MO")
                if has_container:
                    keep_alive(obj, graveyard)
                    mutate_containers(obj, 1000 + step)
                    orig_mutated = True
                    orig_snap = snapshot(obj)
                    cnt("op.mutate_original")
        except Mismatch as m:
            rec["violation"] = m.inv
            viol.append({"sig": {"inv": m.inv, "op": rec.get("op", "?"), "unique": str(rec.get("unique")),
                                 "zero": str(zero)},
                         "detail": "step %d %s: %s | structure=%s alias=%s history=%s" %
                                   (step, rec.get("op"), m.detail, decoded["structure"], inverse, opseq)})
        except Exception as e:
            rec["violation"] = "unexpected_exception"
            viol.append({"sig": {"inv": "unexpected_exception", "op": rec.get("op", "?"),
                                 "exc": type(e).__name__, "zero": str(zero)},
                         "detail": "step %d %s raised %s: %s | structure=%s history=%s" %
                                   (step, rec.get("op"), type(e).__name__, e, decoded["structure"], opseq)})
        # after every operation: the original is untouched
        if not snap_equal(orig_snap, snapshot(obj)):
            viol.append({"sig": {"inv": "original_modified", "op": rec.get("op", "?"), "zero": str(zero)},
                         "detail": "step %d %s modified the original object" % (step, rec.get("op"))})
            orig_snap = snapshot(obj)
        decoded["ops"].append(rec)
        SIM.note(step, rec.get("op"), rec.get("unique"), rec.get("arg"), rec.get("raised"), rec.get("violation"))
        if viol:
            break

    cnt("ops", len(decoded["ops"]))
    if orig_mutated:
        cnt("reach.original_mutated_then_used")
    if two:
        cnt("reach.two_packers_one_structure")
    if has_container and must_succeed_ctor > 0:
        cases.append("%s|%s|%s" % (decoded["structure"], inverse, ",".join(opseq)))
    if tuple_tensors:
        cnt("reach.tensors_inside_tuples")
    if dag:
        cnt("reach.container_referenced_twice")
    if "<!" in decoded["structure"]:
        cnt("reach.assignment_intercepting_object")
    TUPLE_SLOTS[0] = False
    return {"violations": viol, "stats": stats, "cases": cases, "decoded": decoded,
            "digest": SIM.digest(), "evals": 1, "events": len(decoded["ops"])}
