"""C10 - functionals never leave the caller's objects modified, even on failure.

A run = one scenario (actors, a history of operations on the same objects,
debug-mode wrappers, harness-opened nested substitutions) executed once
fault-free to count its N probe events, then re-executed on fresh but identical
actors with the user's callee failing at event k, for every k in the tier's
set.  After every top-level operation - returned or raised - the invariants
I1 (state), I2 (debug flag), I3 (wrappers reusable), I5 (LIFO) are evaluated,
and the faulted operation is re-issued fault-free on the same objects and must
give the reference answer (I6).
"""
from __future__ import annotations

import contextlib
import warnings

import torch

from xsim.probe import SIM, InjectedFault, InjectedAbort, FaultyLinalgSolve
from xsim import actors as AC
from xsim.snapshot import Snapshot, compare, idents

PID = "C10"
LEVEL = "fault_enumeration"
TIERS = {
    "quick": {"runs": 960, "batch": 1, "timeout_s": 600, "crash_points": "subset", "shrink_budget": 60,
              "abort_den": 6},
    "thorough": {"runs": 4000, "batch": 1, "timeout_s": 1800, "crash_points": "all", "shrink_budget": 120,
                 "abort_den": 3},
}
RULE = ("Scenario = (user-object kind x how tensors are held x which require grad x function kind "
        "[method, pre-built PureFunction, sibling, multi-sibling, callable object wrapping the actor] x history of 1-4 operations on the same objects "
        "[forward of a functional+method; backward / graph-recording backward / second backward of any live result; "
        "each optionally inside enable_debug/disable_debug wrappers and inside 0-3 harness-opened nested "
        "substitutions with identical, fresh or aliased (one tensor for several parameters) tensors, or torch's own "
        "functional_call reparametrisation; between operations the caller may rebind a tensor or freeze a Parameter into a "
        "buffer / plain attribute; one scenario in twelve is a dense operator in the exact solver with LAPACK failing once]). One fault-free reference execution counts the N entries "
        "into the user's callees; then one faulted execution per crash point k (quick: k in {1,2,3,N-1,N} + 8 "
        "drawn; thorough: every k in 1..N) with InjectedFault(Exception), InjectedAbort(BaseException) or a domain-error class (ValueError / RuntimeError / FloatingPointError); "
        "then, when the history makes M > 0 internal dense solves (torch.linalg.solve: exact solver, implicit backward of the root finders, "
        "eigenpair gradients), up to 3 (quick) / 12 (thorough) more executions in which the j-th of them raises LAPACK's error once "
        "(xitorch either rescues the call or the error reaches the caller; the state invariants apply in both cases, retry-equals-reference only in the second). "
        "A case is non-trivial iff the fault fired while a substitution was installed (object slots differ from "
        "the originals) or while the debug flag was overridden or inside backward; distinct = distinct "
        "(functional, method, object kind, function kind, phase, debug, substituted?, nest depth, exception class) tuples.")
ASSUMPTIONS = [
    "failures are injected where the statement puts them - at evaluations of the user's callee (incl. operator "
    "products and custom steps) - and at one internal seam (torch.linalg.solve failing once), not at arbitrary bytecode boundaries inside xitorch",
    "state is judged on tensor slots (identity, value, requires_grad, Parameter-ness), container shapes and "
    "nn.Module registration order; xitorch's own non-tensor bookkeeping attributes on the object are ignored",
    "which exception class reaches the caller and the grad mode are recorded, not judged",
]
REAL = ["all of xitorch from /repo working tree (rootfinder, equilibrium, minimize, solve_ivp, quad, mcquad, jac, hess, "
        "solve, symeig, svd, PureFunction, EditableModule, LinearOperator, debug modes)", "torch autograd", "scipy (gmres)"]
STUB = ["the user's functions/modules/operators (small analytic problems, every entry a numbered probe)",
        "the fault injector (raise@k / abort@k)", "the caller (history, nesting, debug wrappers)"]

RTOL = 1e-9
ATOL = 1e-11


# ---------------------------------------------------------------- scenario
class Env(object):
    """everything one execution of a scenario owns (fresh per execution)"""
    pass


def draw_scenario(cs, cfg):
    sc = {}
    sc["n"] = cs.randint(1, 3, "n")
    sc["valseed"] = cs.draw(1000, "valseed")
    # family: 0 = function-like object (EM / nn.Module), 1 = user LinearOperator
    # one scenario in twelve is dedicated to an internal failure the library absorbs: a dense operator (whose
    # full matrix may BE the caller's tensor) handed to the exact solver, whose LAPACK call fails once
    sc["linalg_scenario"] = cs.bool("linalg_scenario", 1, 12)
    sc["family"] = 1 if sc["linalg_scenario"] else cs.weighted([3, 1], "family")
    if sc["family"] == 0:
        # objects holding one tensor under two names get twice the weight: several mechanisms only differ there
        sc["kind"] = cs.weighted([2 if k in (AC.EMAlias, AC.NNShared, AC.EMAliasFirst, AC.NNSharedFirst) else 1
                                  for k in AC.ALL_KINDS + AC.C10_EXTRA_KINDS], "kind")
        sc["fkind"] = ["method", "pf", "sibling", "multisibling", "callable"][cs.weighted([4, 3, 2, 1, 2], "fkind")]
        sc["kind2"] = cs.draw(len(AC.ALL_KINDS), "kind2") if sc["fkind"] == "multisibling" else None
        # a sibling function may take one more, non-differentiated parameter (a python number): the functional's
        # parameter list then mixes tensors and non-tensors
        sc["extra_param"] = sc["fkind"] in ("sibling", "multisibling") and cs.bool("extra_param", 1, 2)
    else:
        if sc["linalg_scenario"]:
            sc["kind"] = cs.weighted([4 if k is AC.LODense else 1 for k in AC.LO_KINDS], "lokind")
            sc["composite"] = cs.weighted([6, 1, 1, 1], "composite")
        else:
            sc["kind"] = cs.weighted([2 if k is AC.LOAlias else 1 for k in AC.LO_KINDS], "lokind")
            sc["composite"] = cs.weighted([3, 1, 1, 1], "composite")   # 0 plain, 1 A+B, 2 scalar*A, 3 A.matmul(B)
        sc["n"] = max(sc["n"], 2)
        sc["fkind"] = "linop"
    # a jac operator of one of the object's methods, kept by the caller: itself an EditableModule whose products can
    # be handed to functionals as the user's function
    sc["with_jop"] = sc["family"] == 0 and cs.bool("with_jop", 1, 5)
    sc["rgW"] = not cs.bool("W_nograd", 1, 5)
    sc["rgb"] = not cs.bool("b_nograd", 1, 5)
    sc["rgs"] = cs.bool("s_grad", 1, 2)
    sc["debug0"] = cs.bool("debug_initially_on", 1, 6)
    # a backward pass issued while the object holds other tensors than when its forward ran
    # (harness-opened substitution around only one of them): the history behind the stale-wrapper defect
    # repaired by 6178b9a; generated in half of the scenarios
    sc["allow_ctx_mismatch"] = cs.bool("allow_ctx_mismatch", 1, 2)
    nops = cs.randint(1, 4, "nops")
    ops = []
    res_plain = []     # per live result: produced without a substituting harness nest?
    res_order = []     # per live result: derivative order (the statement goes up to the double backward; a third
                       # graph-recording pass through quad costs minutes and adds no mechanism)
    for i in range(nops):
        cands = list(range(len(res_plain))) if sc["allow_ctx_mismatch"] else [j for j, ok in enumerate(res_plain) if ok]
        cands = [j for j in cands if res_order[j] < 2]
        if i > 0 and cs.bool("user_edit", 1, 8):
            # between two calls the caller rebinds one tensor attribute of its object (e.g. unties two names that
            # shared a tensor): from then on THAT is the state every later call has to preserve
            # ... or freezes a registered Parameter: re-registers it as a buffer, or keeps it as a plain attribute
            ops.append({"op": "EDIT", "debug": None, "nest": [], "seed": cs.draw(1000, "opseed"),
                        "how": ["rebind", "to_buffer", "to_plain"][cs.weighted([2, 1, 1], "edit_how")]})
            continue
        if not cands or cs.bool("fwd", 1, 2):
            op = {"op": "FWD", "F": draw_functional(cs, sc)}
        else:
            op = {"op": "BWD", "i": cands[cs.draw(len(cands), "which_result")], "cg": cs.bool("create_graph", 1, 2)}
        op["debug"] = [None, "enable", "disable", "enable>disable", "disable>enable", "set_true"][
            cs.weighted([6, 5, 1, 1, 1, 1], "dbg")]
        depth = cs.weighted([5, 3, 2, 1], "nest")
        op["nest"] = [["identical", "clones", "clones_nograd", "aliased", "torch_reparam"][
            cs.weighted([2, 5, 1, 2, 1], "nestkind")] for _ in range(depth)]
        if op["op"] == "BWD" and not sc["allow_ctx_mismatch"]:
            op["nest"] = ["identical" for _ in op["nest"]]
        subst = any(k != "identical" for k in op["nest"])
        if op["op"] == "FWD":
            res_plain.append(not subst)
            res_order.append(0)
        elif op["cg"]:
            res_plain.append(res_plain[op["i"]] and not subst)
            res_order.append(res_order[op["i"]] + 1)
        op["seed"] = cs.draw(1000, "opseed")
        ops.append(op)
    sc["ops"] = ops
    return sc


def draw_functional(cs, sc):
    if sc["family"] == 1:
        F = ["solve", "symeig", "svd", "linop_products"][cs.weighted([5, 3, 1, 1], "F")]
        hermitian = AC.LO_KINDS[sc["kind"]] is not AC.LOWithRmv and sc["composite"] != 3
        if F == "symeig" and not hermitian:
            F = "solve"      # symeig rejects non-Hermitian operators outright
        if sc.get("linalg_scenario"):
            spec = {"F": "solve", "method": cs.choice(["exactsolve", "custom_exactsolve"], "lm"),
                    "E": cs.bool("withE", 1, 3), "bck": cs.choice([None, "cg", "exactsolve"], "bck")}
            spec["M"] = bool(spec["E"]) and cs.bool("withM", 1, 2)
            spec["linalg_fault"] = cs.randint(1, 2, "linalg_k")
            return spec
        spec = {"F": F}
        if F == "solve":
            spec["method"] = cs.choice(["cg", "bicgstab", "gmres", "broyden1", "exactsolve", "custom_exactsolve"], "m")
            spec["E"] = cs.bool("withE", 1, 3) and spec["method"] != "gmres"
            spec["bck"] = cs.choice([None, "cg", "exactsolve"], "bck")
            # a second user operator M (A X - M X E = B): two operators substituted in one call
            spec["M"] = bool(spec["E"]) and cs.bool("withM", 1, 2)
            # an internal failure the library may absorb: the k-th dense solve of the call fails like LAPACK does
            # for a singular system (the call then completes through a rescue path, or fails - either way the
            # caller's tensors must be untouched)
            spec["linalg_fault"] = cs.randint(1, 2, "linalg_k") if (
                spec["method"] in ("exactsolve", "custom_exactsolve") and cs.bool("linalg_fault", 1, 3)) else 0
        elif F == "symeig":
            spec["method"] = cs.choice(["exacteig", "custom_exacteig", "davidson"], "m")
            spec["neig"] = cs.randint(1, 2, "neig")
            spec["M"] = cs.bool("withM", 1, 3)
        return spec
    F = ["rootfinder", "equilibrium", "minimize", "solve_ivp", "quad", "mcquad", "jac", "hess", "reentrant", "jop_root"][
        cs.weighted([4, 3, 3, 4, 3, 3, 3, 2, 2, 3 if sc.get("with_jop") else 0], "F")]
    spec = {"F": F}
    if F == "jop_root":
        spec["method"] = cs.choice(["broyden1", "linearmixing"], "m")
        spec["knobs"] = {}
        return spec
    if F in ("rootfinder", "reentrant"):
        spec["method"] = cs.choice(["broyden1", "broyden2", "linearmixing", "newton"], "m")
        spec["bck"] = cs.choice([None, "cg", "exactsolve", "bicgstab"], "bck")
        if F == "reentrant":
            # which functional the user's function calls on another method of the same object
            spec["inner"] = cs.choice(["rootfinder", "quad", "equilibrium", "solve_ivp"], "inner")
    elif F == "equilibrium":
        spec["method"] = cs.choice(["broyden1", "anderson_acc", "linearmixing", "broyden2"], "m")
        spec["bck"] = cs.choice([None, "cg", "exactsolve"], "bck")
    elif F == "minimize":
        spec["method"] = cs.choice(["broyden1", "gd", "adam", "linearmixing"], "m")
        spec["bck"] = cs.choice([None, "cg", "exactsolve"], "bck")
    elif F == "solve_ivp":
        spec["method"] = cs.choice(["rk4", "rk45", "euler", "rk38", "rk23"], "m")
        spec["tuple"] = cs.bool("tuple_state", 1, 3)
        spec["ts_grad"] = cs.bool("ts_grad", 1, 3)
        spec["decreasing"] = cs.bool("decreasing", 1, 4)
    elif F == "quad":
        # "inf_tensors": an infinite boundary given as a tensor (with python numbers quad's own backward raises, which
        # belongs to another property, so the backward usages of an infinite integral would never be judged)
        spec["limits"] = cs.choice(["numbers", "tensors", "tensor_grad", "inf", "inf_tensors"], "lim")
    elif F == "mcquad":
        spec["method"] = cs.choice(["mhcustom", "mh", "_dummy1d"], "m")
    elif F == "jac":
        spec["product"] = cs.choice(["mv", "rmv", "fullmatrix", "mm", "rmm", "H.mv", "solve"], "prod")
        if spec["product"] == "solve":
            spec["solve_method"] = cs.choice(["bicgstab", "cg", "exactsolve", "custom_exactsolve"], "jsm")
        spec["keep_op"] = cs.bool("keep_op", 1, 2)      # the caller keeps the operator and uses it again
    elif F == "hess":
        spec["product"] = cs.choice(["mv", "fullmatrix", "rmv", "solve"], "prod")
        if spec["product"] == "solve":
            spec["solve_method"] = cs.choice(["cg", "bicgstab", "exactsolve", "custom_exactsolve"], "jsm")
        spec["keep_op"] = cs.bool("keep_op", 1, 2)
    spec["knobs"] = draw_knobs(cs, spec)
    return spec


def draw_knobs(cs, spec):
    """tuning knobs of the chosen method, randomised per run (first alternative = the default):
    correctness must not silently depend on one configuration"""
    F, m = spec["F"], spec.get("method")
    k = {}
    if not cs.bool("knobs", 1, 2):
        return k
    if m in ("broyden1", "broyden2") and F != "symeig":
        mr = cs.choice([None, 1, 2, 4], "max_rank")
        if mr is not None:
            k["max_rank"] = mr
        if F != "solve":
            if cs.bool("no_line_search", 1, 3):
                k["line_search"] = False
            if cs.bool("alpha", 1, 3):
                k["alpha"] = -0.7
    elif m == "linearmixing":
        if cs.bool("alpha", 1, 2):
            k["alpha"] = -0.6
    elif m == "anderson_acc":
        ms = cs.choice([None, 2, 3], "msize")     # msize=1 makes anderson_acc raise IndexError (input domain, not judged here)
        if ms is not None:
            k["msize"] = ms
        if cs.bool("beta", 1, 2):
            k["beta"] = 0.7
    elif m in ("gd", "adam"):
        if cs.bool("step", 1, 2):
            k["step"] = 0.05
    elif F == "solve" and m in ("cg", "bicgstab"):
        if cs.bool("posdef", 1, 2):
            k["posdef"] = True
        if cs.bool("rtol", 1, 2):
            k["rtol"] = 1e-9
    elif F == "symeig" and m == "davidson":
        if cs.bool("max_addition", 1, 2):
            k["max_addition"] = 1
        if cs.bool("nguess", 1, 2):
            k["nguess"] = 2
    elif F == "solve_ivp" and m in ("rk45", "rk23"):
        if cs.bool("tol", 1, 2):
            k["rtol"] = 1e-4
    elif F == "quad":
        n = cs.choice([None, 3, 6], "quad_n")
        if n is not None:
            k["n"] = n
    return k


def build_env(sc):
    env = Env()
    env.sc = sc
    n = sc["n"]
    vals = AC.make_values(sc["valseed"], n)
    env.vals = vals
    env.n = n
    env.actors = []
    if sc["family"] == 0:
        a = AC.build_actor((AC.ALL_KINDS + AC.C10_EXTRA_KINDS)[sc["kind"]], vals, sc["rgW"], sc["rgb"])
        env.actors.append(a)
        if sc["kind2"] is not None:
            env.actors.append(AC.build_actor(AC.ALL_KINDS[sc["kind2"]], vals, sc["rgW"], sc["rgb"], second=True))
    else:
        kind = AC.LO_KINDS[sc["kind"]]
        with warnings.catch_warnings():
            warnings.simplefilter("ignore")
            W = vals["W"].clone().requires_grad_(sc["rgW"])
            b = vals["b"].clone().requires_grad_(sc["rgb"])
            herm = kind is not AC.LOWithRmv
            A = kind(W, b, hermitian=herm)
            env.leaf_extra = [W, b]
            if kind is AC.LODense and A.mat.requires_grad:
                env.leaf_extra.append(A.mat)
            env.actors.append(A)
            env.linop = A
            if sc["composite"] in (1, 3):
                W2 = vals["W2"].clone().requires_grad_(sc["rgW"])
                b2 = vals["b2"].clone().requires_grad_(sc["rgb"])
                B = AC.LOPlain(W2, b2, hermitian=True)
                env.actors.append(B)
                env.leaf_extra += [W2, b2]
                env.linop = (A + B) if sc["composite"] == 1 else A.matmul(B)
                env.actors.append(env.linop)
            elif sc["composite"] == 2:
                env.linop = A * 2
                env.actors.append(env.linop)
    if sc["family"] == 1:
        with warnings.catch_warnings():
            warnings.simplefilter("ignore")
            W3 = (0.5 * vals["W2"]).clone().requires_grad_(sc["rgW"])
            b3 = (vals["b2"] + 0.5).clone().requires_grad_(sc["rgb"])
            env.Mop = AC.LOPlain(W3, b3, hermitian=True)     # positive definite overlap operator
            env.actors.append(env.Mop)
            env.leaf_extra += [W3, b3]
    env.s = torch.tensor(0.7, dtype=AC.DT).requires_grad_(sc["rgs"])
    env.s2 = torch.tensor(0.9, dtype=AC.DT).requires_grad_(sc["rgs"])
    if sc.get("with_jop"):
        from xitorch import grad as _xg
        with warnings.catch_warnings():
            warnings.simplefilter("ignore")
            yv = vals["y0"].clone().requires_grad_()
            env.jop = _xg.jac(env.actors[0].f_jac, params=(yv, env.s), idxs=0)
        env.actors.append(env.jop)
    env.y0 = vals["y0"].clone()
    env.pfs = {}
    env.proxies = {}
    env.pool = []       # live results: scalar losses
    env.poolinfo = []
    return env


def leaves_of(env):
    out = []
    seen = set()
    for a in env.actors:
        for s in Snapshot(a).slots:
            t = s.ref
            if t.requires_grad and t.is_leaf and id(t) not in seen:
                seen.add(id(t))
                out.append(t)
    for t in getattr(env, "leaf_extra", []):
        if t.requires_grad and id(t) not in seen:
            seen.add(id(t))
            out.append(t)
    for a in env.actors:
        w0 = getattr(a, "W0", None)
        if isinstance(w0, torch.Tensor) and w0.requires_grad and id(w0) not in seen:
            seen.add(id(w0))
            out.append(w0)
    for t in (env.s, env.s2):
        if t.requires_grad:
            out.append(t)
    return out


def get_fcn(env, mname, allow_multi=True):
    from xitorch._core.pure_function import get_pure_function, make_sibling
    fk = env.sc["fkind"]
    a = env.actors[0]
    m = getattr(a, mname)
    if fk == "method":
        return m
    key = (fk, mname)
    if key in env.pfs:
        return env.pfs[key]
    if fk == "callable":
        # the functional is handed a callable object (EditableModule / nn.Module) wrapping the actor
        if key not in env.proxies:
            env.proxies[key] = AC.call_proxy(a, mname)
        return env.proxies[key]
    elif fk == "pf":
        pf = get_pure_function(m)
    elif fk == "sibling" or (fk == "multisibling" and not allow_multi):
        @make_sibling(m)
        def pf(*args):
            return m(*[a_ for a_ in args if not isinstance(a_, float)])
    else:
        m2 = getattr(env.actors[1], mname)

        @make_sibling(m, m2)
        def pf(*args):
            args = [a_ for a_ in args if not isinstance(a_, float)]
            return 0.5 * (m(*args) + m2(*args))
    env.pfs[key] = pf
    return pf


def nest_handle(env, spec):
    """the object through which the harness itself opens substitutions around the op:
    returns (enter(newlist)->contextmanager, current_list())"""
    from xitorch._core.pure_function import get_pure_function
    if env.sc["family"] == 1:
        A = env.linop
        return (lambda new: A.uselinopparams(*new)), (lambda: list(A.getlinopparams()))
    mname = method_name_of(spec)
    f = get_fcn(env, mname, allow_multi=multi_ok(spec))
    if env.sc["fkind"] in ("method", "callable"):
        key = ("nestpf", mname)
        if key not in env.pfs:
            env.pfs[key] = get_pure_function(f)
        pf = env.pfs[key]
    else:
        pf = f
    return (lambda new: pf.useobjparams(new)), (lambda: list(pf.objparams()))


def multi_ok(spec):
    return not (spec["F"] == "solve_ivp" and spec.get("tuple"))


def method_name_of(spec):
    F = spec["F"]
    return {"rootfinder": "f_root", "reentrant": "f_reent", "equilibrium": "f_equil", "minimize": "f_min", "jop_root": "f_jac",
            "solve_ivp": "f_ode_tuple" if spec.get("tuple") else "f_ode", "quad": "f_quad", "mcquad": "f_mc",
            "jac": "f_jac", "hess": "f_hess"}[F]


# ------------------------------------------------------- running functionals
def run_functional(env, spec):
    """forward of one functional; returns a scalar loss (differentiable where possible)"""
    import xitorch as xt
    from xitorch import optimize as xo, integrate as xi, linalg as xl, grad as xg
    F = spec["F"]
    n = env.n
    s = env.s

    def PS(s_):
        if env.sc.get("extra_param"):
            SIM.count("reach.mixed_parameter_list")
            return (s_, 0.125)
        return (s_,)
    wts = torch.linspace(0.5, 1.5, n, dtype=AC.DT)
    kn = dict(spec.get("knobs") or {})
    if F in ("rootfinder", "reentrant"):
        if F == "reentrant":
            for a_ in env.actors:
                a_.inner_kind = spec.get("inner", "quad")
        f = get_fcn(env, method_name_of(spec))
        bck = {"method": spec["bck"]} if spec["bck"] else {}
        y = xo.rootfinder(f, env.y0, params=PS(s), method=spec["method"], bck_options=bck, maxiter=40, **kn)
        return (y * wts).sum()
    if F == "equilibrium":
        f = get_fcn(env, "f_equil")
        bck = {"method": spec["bck"]} if spec["bck"] else {}
        y = xo.equilibrium(f, env.y0, params=PS(s), method=spec["method"], bck_options=bck, maxiter=40, **kn)
        return (y * wts).sum()
    if F == "minimize":
        f = get_fcn(env, "f_min")
        bck = {"method": spec["bck"]} if spec["bck"] else {}
        opts = {"maxiter": 12, "step": 0.1} if spec["method"] in ("gd", "adam") else {"maxiter": 40}
        opts.update(kn)
        y = xo.minimize(f, env.y0, params=PS(s), method=spec["method"], bck_options=bck, **opts)
        return (y * wts).sum()
    if F == "solve_ivp":
        ts = torch.tensor([0.0, 0.2, 0.5], dtype=AC.DT)
        if spec["decreasing"]:
            ts = ts.flip(0).contiguous()
        ts = ts.requires_grad_(spec["ts_grad"])
        opts = {"atol": 1e-6, "rtol": 1e-5} if spec["method"] in ("rk23", "rk45") else {}
        opts.update(kn)
        if spec["tuple"]:
            f = get_fcn(env, "f_ode_tuple", allow_multi=False)
            y0 = (env.y0, torch.ones(2, dtype=AC.DT))
            yt = xi.solve_ivp(f, ts, y0, params=PS(s), method=spec["method"], **opts)
            return (yt[0][-1] * wts).sum() + yt[1].sum()
        f = get_fcn(env, "f_ode")
        yt = xi.solve_ivp(f, ts, env.y0, params=PS(s), method=spec["method"], **opts)
        return (yt[-1] * wts).sum() + yt[1].sum()
    if F == "quad":
        f = get_fcn(env, "f_quad")
        lim = spec["limits"]
        if lim == "numbers":
            xl_, xu_ = 0.0, 1.0
        elif lim == "tensors":
            xl_, xu_ = torch.tensor(0.0, dtype=AC.DT), torch.tensor(1.0, dtype=AC.DT)
        elif lim == "tensor_grad":
            xl_, xu_ = torch.tensor(0.0, dtype=AC.DT), torch.tensor(1.0, dtype=AC.DT).requires_grad_()
        elif lim == "inf_tensors":
            xl_, xu_ = torch.tensor(0.0, dtype=AC.DT), torch.tensor(float("inf"), dtype=AC.DT)
        else:
            xl_, xu_ = 0.0, float("inf")
        y = xi.quad(f, xl_, xu_, params=PS(s), n=kn.get("n", 4))
        return (y * wts).sum()
    if F == "mcquad":
        a = env.actors[0]
        f = get_fcn(env, "f_mc")
        lp = a.logp
        m = spec["method"]
        if m == "mhcustom":
            x0 = env.y0
            y = xi.mcquad(f, lp, x0, fparams=PS(s), pparams=(env.s2,), method=m, nsamples=4, nburnout=3,
                          custom_step=a.g_step)
        elif m == "mh":
            y = xi.mcquad(f, lp, env.y0, fparams=PS(s), pparams=(env.s2,), method=m, nsamples=5, nburnout=2,
                          step_size=0.5)
        else:
            x0 = env.y0[:1]
            y = xi.mcquad(f, lp, x0, fparams=PS(s), pparams=(env.s2,), method=m, nsamples=5, lb=-2.0, ub=2.0)
        return (y * wts).sum()
    if F == "jop_root":
        # the user's function is a product of a jac operator (a bound method of an EditableModule)
        y = xo.rootfinder(env.jop.mv, env.y0, params=(), method=spec["method"], maxiter=6)
        return (y * wts).sum()
    if F in ("jac", "hess"):
        kept = getattr(env, "kept_op", None) if spec.get("keep_op") else None
        if kept is not None:
            op = kept          # an operator the caller keeps across calls
        else:
            yv = env.y0.clone().requires_grad_()
            if F == "jac":
                op = xg.jac(get_fcn(env, "f_jac"), params=(yv, s), idxs=0)
            else:
                op = xg.hess(get_fcn(env, "f_hess"), params=(yv, s), idxs=0)
            if spec.get("keep_op"):
                env.kept_op = op
        v = torch.linspace(1.0, 2.0, n, dtype=AC.DT)
        p = spec["product"]
        if p == "mv":
            r = op.mv(v)
        elif p == "rmv":
            r = op.rmv(v)
        elif p == "fullmatrix":
            r = op.fullmatrix()
        elif p == "mm":
            r = op.mm(torch.stack([v, v * 0.5], dim=-1))
        elif p == "rmm":
            r = op.rmm(torch.stack([v, v * 0.5], dim=-1))
        elif p == "H.mv":
            r = op.H.mv(v)
        else:
            r = xl.solve(op, v.unsqueeze(-1), method=spec.get("solve_method", "bicgstab"))
        return r.sum()
    # ---- LinearOperator family
    A = env.linop
    B = env.vals["B"]
    if F == "solve":
        E = torch.tensor([0.1, -0.2], dtype=AC.DT) if spec["E"] else None
        bck = {"method": spec["bck"]} if spec["bck"] else {}
        M = env.Mop if spec.get("M") else None
        if spec.get("linalg_fault"):
            with FaultyLinalgSolve(spec["linalg_fault"]) as fl:
                try:
                    x = xl.solve(A, B, E=E, M=M, method=spec["method"], bck_options=bck, **kn)
                finally:
                    SIM.count("fault.linalg_error", fl.fired)
        else:
            x = xl.solve(A, B, E=E, M=M, method=spec["method"], bck_options=bck, **kn)
        return (x * x).sum()
    if F == "symeig":
        ne = min(spec["neig"], n)
        opts = {"max_niter": 30} if spec["method"] == "davidson" else {}
        opts.update(kn)
        M = env.Mop if spec.get("M") else None
        ev, evec = xl.symeig(A, neig=ne, M=M, method=spec["method"], **opts)
        return ev.sum() + (evec.abs() ** 2 * torch.linspace(1, 2, n, dtype=AC.DT).unsqueeze(-1)).sum()
    if F == "svd":
        u, sv, vh = xl.svd(A, k=1, method="exacteig")
        return sv.sum()
    if F == "linop_products":
        v = torch.linspace(1.0, 2.0, n, dtype=AC.DT)
        return A.mv(v).sum() + A.rmv(v).sum() + A.fullmatrix().sum() + A.mm(B).sum()
    raise AssertionError(F)


# ---------------------------------------------------------- in-call monitor
class Monitor(object):
    """observes PureFunction.set_objparams/restore_objparams and
    LinearOperator.uselinopparams from outside (wrapped by the harness, skipped
    if the attributes do not exist): every restore must re-install exactly the
    identities that were in the user's objects at the matching set (LIFO)."""

    def __init__(self, env):
        self.env = env
        self.stack = []
        self.violations = []
        self.pushes = 0
        self.maxdepth = 0
        self.active = False
        self.skipped = []

    def idents(self):
        return tuple(idents(a) for a in self.env.actors)

    def install(self):
        from xitorch._core import pure_function as pfm
        from xitorch._core.linop import LinearOperator
        mon = self
        self._undo = []
        PF = pfm.PureFunction
        if hasattr(PF, "set_objparams") and hasattr(PF, "restore_objparams"):
            o_set, o_res = PF.set_objparams, PF.restore_objparams

            def set_objparams(pf, objparams):
                if mon.active:
                    mon.stack.append(("pf", id(pf), mon.idents()))
                    mon.pushes += 1
                    mon.maxdepth = max(mon.maxdepth, len(mon.stack))
                return o_set(pf, objparams)

            def restore_objparams(pf):
                r = o_res(pf)
                if mon.active:
                    mon.pop("pf", id(pf))
                return r
            PF.set_objparams, PF.restore_objparams = set_objparams, restore_objparams
            self._undo.append(lambda: (setattr(PF, "set_objparams", o_set), setattr(PF, "restore_objparams", o_res)))
        else:
            self.skipped.append("PureFunction.set_objparams/restore_objparams")
        if hasattr(LinearOperator, "uselinopparams"):
            o_use = LinearOperator.uselinopparams

            @contextlib.contextmanager
            def uselinopparams(lo, *params):
                if not mon.active:
                    with o_use(lo, *params) as r:
                        yield r
                    return
                before = mon.idents()
                mon.stack.append(("lo", id(lo), before))
                mon.pushes += 1
                mon.maxdepth = max(mon.maxdepth, len(mon.stack))
                try:
                    with o_use(lo, *params) as r:
                        yield r
                finally:
                    mon.pop("lo", id(lo))
            LinearOperator.uselinopparams = uselinopparams
            self._undo.append(lambda: setattr(LinearOperator, "uselinopparams", o_use))
        else:
            self.skipped.append("LinearOperator.uselinopparams")

    def pop(self, kind, ident):
        if not self.stack:
            self.violations.append(("I5.unbalanced", "restore without a matching set"))
            return
        k, i, before = self.stack.pop()
        if (k, i) != (kind, ident):
            self.violations.append(("I5.lifo_order", "restore of %s does not match the most recent set (%s)" % (kind, k)))
        now = self.idents()
        if now != before:
            self.violations.append(("I5.lifo_state", "after a restore the user's objects do not hold the tensors "
                                    "they held at the matching set (depth %d)" % (len(self.stack) + 1)))

    def uninstall(self):
        for u in self._undo:
            u()


# ------------------------------------------------------------ one execution
class OpOutcome(object):
    def __init__(self):
        self.value = None
        self.raised = None


def _detach_vals(x):
    if x is None:
        return None
    if isinstance(x, (list, tuple)):
        return [None if t is None else t.detach().clone() for t in x]
    return x.detach().clone()


def vals_close(a, b):
    if a is None or b is None:
        return a is None and b is None
    if isinstance(a, list):
        return isinstance(b, list) and len(a) == len(b) and all(vals_close(x, y) for x, y in zip(a, b))
    if a.shape != b.shape:
        return False
    return bool(torch.allclose(a, b, rtol=RTOL, atol=ATOL, equal_nan=True))


def execute(sc, plan, reference=None, collect=None, linalg_j=0):
    """execute the scenario's history once. plan: {event k: kind}.
    reference: list of per-op reference values (from the fault-free execution) or None.
    Returns dict(values, N, violations, info)."""
    from xitorch.debug.modes import is_debug_enabled, set_debug_mode, enable_debug, disable_debug
    SIM.reset()
    viol = []
    info = {"ops": [], "fired": None}
    set_debug_mode(bool(sc["debug0"]))
    env = build_env(sc)
    init_snaps = [Snapshot(a, "obj%d" % i) for i, a in enumerate(env.actors)]
    orig_idents = set()
    for sn in init_snaps:
        orig_idents.update(sn.ident_tuple())
    mon = Monitor(env)
    mon.install()
    flag_expected = bool(sc["debug0"])
    SIM.set_plan(plan)
    state = {"in_bwd": False, "nest_depth": 0, "dbg_override": False}

    def observer(seq, name, owner):
        # identity pattern of the actors' slots relative to the originals
        subst = False
        for a, sn0 in zip(env.actors, init_snaps):
            now = idents(a)
            if now != sn0.ident_tuple():
                subst = True
        tag = (bool(subst), bool(torch.is_grad_enabled()), bool(is_debug_enabled()),
               state["in_bwd"], state["nest_depth"], len(mon.stack))
        if seq in SIM.plan:
            info["fired"] = {"k": seq, "kind": SIM.plan[seq], "probe": name, "substituted": subst,
                             "in_backward": state["in_bwd"], "debug": bool(is_debug_enabled()),
                             "nest_depth": state["nest_depth"], "monitor_depth": len(mon.stack),
                             "dbg_override": state["dbg_override"]}
        return tag
    SIM.observers.append(observer)

    class _InternalFailure(FaultyLinalgSolve):
        """an internal call that usually succeeds - the j-th dense LAPACK call (solve / cholesky / eigh / qr / inverse) of
        the whole history, wherever it is made (exact solver, implicit backward of a root finder, eigenpair gradients,
        orthogonalisation and Rayleigh-Ritz steps of the eigensolvers) - fails once with LAPACK's error"""
        def __call__(self_, *a, **kw):
            if self_.k and self_.n + 1 == self_.k:
                subst = any(idents(a_) != sn0.ident_tuple() for a_, sn0 in zip(env.actors, init_snaps))
                info["fired"] = {"k": -self_.k, "kind": "internal_linalg_error", "probe": "torch.linalg." + str(kw.get("_xsim_target", "solve")),
                                 "substituted": subst, "in_backward": state["in_bwd"], "debug": bool(is_debug_enabled()),
                                 "nest_depth": state["nest_depth"], "monitor_depth": len(mon.stack),
                                 "dbg_override": state["dbg_override"]}
            return FaultyLinalgSolve.__call__(self_, *a, **kw)
    internal = _InternalFailure(linalg_j)
    internal.__enter__()

    def check_state(tag, befores, opidx, opname):
        for a, sn in zip(env.actors, befores):
            for inv, detail in compare(sn, a):
                viol.append({"inv": inv, "where": tag, "op": opidx, "opname": opname, "detail": "%s: %s" % (tag, detail)})

    def run_op_body(op):
        if op["op"] == "FWD":
            torch.manual_seed(op["seed"])
            loss = run_functional(env, op["F"])
            return loss
        else:
            i = op["i"]
            if i >= len(env.pool) or env.pool[i] is None:
                return None
            loss = env.pool[i]
            if not loss.requires_grad:
                return None
            lv = leaves_of(env)
            if not lv:
                return None
            torch.manual_seed(op["seed"])
            state["in_bwd"] = True
            try:
                g = torch.autograd.grad(loss, lv, create_graph=op["cg"], retain_graph=True, allow_unused=True)
            finally:
                state["in_bwd"] = False
            return list(g)

    def with_debug(op, thunk):
        d = op["debug"]
        if d is None:
            return thunk()
        state["dbg_override"] = True
        try:
            if d == "enable":
                with enable_debug():
                    return thunk()
            if d == "disable":
                with disable_debug():
                    return thunk()
            if d == "enable>disable":
                with enable_debug():
                    with disable_debug():
                        return thunk()
            if d == "disable>enable":
                with disable_debug():
                    with enable_debug():
                        return thunk()
            if d == "set_true":
                prev = is_debug_enabled()
                set_debug_mode(True)
                try:
                    return thunk()
                finally:
                    set_debug_mode(prev)   # the harness's own restore: the caller did the set
        finally:
            state["dbg_override"] = False

    def with_nest(op, thunk, fspec, level=0):
        """harness-opened nested substitutions around the op (I5 checked at every level)"""
        if level >= len(op["nest"]) or fspec is None:
            return thunk()
        enter, current = nest_handle(env, fspec)
        cur = current()
        kind = op["nest"][level]
        if kind == "torch_reparam":
            a0 = env.actors[0]
            if isinstance(a0, torch.nn.Module) and hasattr(torch.nn.utils.stateless, "_reparametrize_module"):
                # torch's own temporary substitution (what torch.func.functional_call does around forward):
                # plain tensors are put directly into the module's parameter slots
                names = [nm for nm, _ in a0.named_parameters(remove_duplicate=False)]
                repl = {nm: p.detach().clone().requires_grad_() for nm, p in a0.named_parameters()}
                enter = lambda new, a0=a0, repl=repl: torch.nn.utils.stateless._reparametrize_module(a0, repl)
                cur = list(repl.values())
                SIM.count("reach.torch_functional_call_substitution")
                kind = "torch_reparam_active"
            else:
                kind = "clones"
        if kind == "torch_reparam_active":
            new = list(cur)
        elif kind == "identical":
            new = list(cur)
        elif kind == "clones":
            new = [p.detach().clone().requires_grad_() for p in cur]
        elif kind == "aliased":
            # one fresh tensor handed over for every parameter of the same shape (aliased substitution)
            byshape = {}
            new = []
            for p in cur:
                key = (tuple(p.shape), p.dtype)
                if key not in byshape:
                    byshape[key] = p.detach().clone().requires_grad_()
                new.append(byshape[key])
            if len(byshape) < len(cur):
                SIM.count("reach.aliased_substitution")
        else:
            new = [p.detach().clone() for p in cur]
        befores = [Snapshot(a) for a in env.actors]
        before_ids = [b.ident_tuple() for b in befores]
        state["nest_depth"] += 1
        try:
            with enter(new):
                # the new tensors must be installed now
                now_ids = set()
                for a in env.actors:
                    now_ids.update(idents(a))
                missing = [j for j, p in enumerate(new) if id(p) not in now_ids]
                if missing:
                    viol.append({"inv": "I5.not_installed", "where": "nest%d" % level, "op": -1, "opname": "nest",
                                 "detail": "substituted tensors %s are not in the object inside the context" % missing})
                inner_before = [Snapshot(a) for a in env.actors]
                try:
                    return with_nest(op, thunk, fspec, level + 1)
                finally:
                    # after the inner op (returned or raised) this level's tensors are back
                    for a, sn in zip(env.actors, inner_before):
                        if idents(a) != sn.ident_tuple():
                            viol.append({"inv": "I5.level_identity", "where": "nest%d-inner" % level, "op": -1,
                                         "opname": "nest", "detail": "after the inner operation the object does not hold "
                                         "the tensors of nesting level %d" % (level + 1)})
        finally:
            state["nest_depth"] -= 1
            for a, ids in zip(env.actors, before_ids):
                if idents(a) != ids:
                    viol.append({"inv": "I5.unwind", "where": "nest%d-exit" % level, "op": -1, "opname": "nest",
                                 "detail": "after leaving nesting level %d the object does not hold what it held "
                                           "before entering it" % (level + 1)})

    values = []
    last_fspec = None
    nest_of_result = []   # harness nesting under which each live result was produced
    def user_edit(op):
        """the caller rebinds the last tensor slot of its first object to a new tensor of the same value"""
        a = env.actors[0]
        sn = Snapshot(a)
        if not sn.slots:
            return False
        g = torch.Generator()
        g.manual_seed(op["seed"])
        for target in reversed(sn.slots):
            path = target.path.split(".", 1)[1] if "." in target.path else None
            if path is None or not target.ref.dtype.is_floating_point:
                continue
            old = target.ref
            new = old.detach().clone().requires_grad_(old.requires_grad)
            if isinstance(old, torch.nn.Parameter):
                new = torch.nn.Parameter(new.detach(), requires_grad=old.requires_grad)
            # plain python assignment, as a user would do it
            parts = path.replace("]", "").replace("[", ".[").split(".")
            try:
                obj = a
                for p_ in parts[:-1]:
                    obj = obj[eval(p_[1:])] if p_.startswith("[") else getattr(obj, p_)
                last = parts[-1]
                how = op.get("how", "rebind")
                if how != "rebind" and isinstance(obj, torch.nn.Module) and isinstance(old, torch.nn.Parameter) \
                        and last in obj._parameters:
                    # the caller freezes the parameter: from now on it is a constant of the module
                    const = old.detach().clone()
                    delattr(obj, last)
                    if how == "to_buffer":
                        obj.register_buffer(last, const)
                    else:
                        setattr(obj, last, const)
                    SIM.count("reach.user_freezes_parameter_between_calls")
                elif last.startswith("["):
                    obj[eval(last[1:])] = new
                else:
                    setattr(obj, last, new)
            except TypeError:      # a slot inside an immutable container
                continue
            break
        else:
            return False
        return True

    for opidx, op in enumerate(sc["ops"]):
        if op["op"] == "EDIT":
            done = user_edit(op)
            if done:
                SIM.count("reach.user_rebinds_tensor_between_calls")
                init_snaps[:] = [Snapshot(a, "obj%d" % i) for i, a in enumerate(env.actors)]
            values.append({"raised": None, "value": None})
            info["ops"].append({"op": "EDIT", "raised": None, "events": (SIM.seq + 1, SIM.seq)})
            nest_of_result.append([]) if False else None
            SIM.note("op", opidx, "EDIT", None)
            continue
        # "ctx": a backward pass issued while the object holds other tensors than when the
        # forward ran (different harness-opened substitution) - see known finding stale-wrapper
        def _subst(nest):
            return [k for k in nest if k != "identical"]
        if op["op"] == "FWD":
            ctx_tag = "same"
            nest_of_result.append(_subst(op["nest"]))
        else:
            src = nest_of_result[op["i"]] if op["i"] < len(nest_of_result) else []
            ctx_tag = "mismatch" if (_subst(op["nest"]) or src) else "same"
            if op["cg"]:
                nest_of_result.append(["mixed"] if ctx_tag == "mismatch" else [])
        if ctx_tag == "mismatch":
            state["tainted"] = True
        if state.get("tainted"):
            ctx_tag = "mismatch"
        nviol0 = len(viol)
        ev_start = SIM.seq
        opname = op["op"] + (":" + op["F"]["F"] if op["op"] == "FWD" else "")
        fspec = op["F"] if op["op"] == "FWD" else last_fspec
        if op["op"] == "FWD":
            last_fspec = op["F"]
        befores = [Snapshot(a) for a in env.actors]
        flag_before = is_debug_enabled()
        out = OpOutcome()
        mon.active = True
        stack_before = len(mon.stack)
        try:
            with warnings.catch_warnings():
                warnings.simplefilter("ignore")
                out.value = with_debug(op, lambda: with_nest(op, lambda: run_op_body(op), fspec))
        except (InjectedFault, InjectedAbort) as e:
            out.raised = e
        except Exception as e:  # xitorch may re-wrap the injected exception, or reject for its own reasons
            out.raised = e
        finally:
            mon.active = False
        raised_name = type(out.raised).__name__ if out.raised is not None else None
        fired_here = info["fired"] is not None and not info.get("fired_op_recorded")
        if fired_here:
            info["fired_op_recorded"] = True
            info["fired"]["op"] = opidx
            info["fired"]["opname"] = opname
            info["fired"]["reached_caller_as"] = raised_name
        # ---- invariants after the operation returned or raised
        check_state("after-op", befores, opidx, opname)
        if is_debug_enabled() != flag_before:
            viol.append({"inv": "I2.debug_flag", "where": "after-op", "op": opidx, "opname": opname,
                         "detail": "debug flag is %s after the operation, was %s before" % (is_debug_enabled(), flag_before)})
            set_debug_mode(flag_before)
        for inv, detail in mon.violations:
            viol.append({"inv": inv, "where": "in-call", "op": opidx, "opname": opname, "detail": detail})
        mon.violations = []
        if len(mon.stack) != stack_before:
            viol.append({"inv": "I5.unbalanced", "where": "after-op", "op": opidx, "opname": opname,
                         "detail": "%d substitution(s) were set but never restored" % (len(mon.stack) - stack_before)})
            del mon.stack[stack_before:]
        rec = {"op": opname, "raised": raised_name}
        if out.raised is not None:
            rec["msg"] = str(out.raised)[:160].replace("\n", " ")
        # ---- I6: after faults stop, the same operation on the same objects gives the reference answer
        if fired_here and out.raised is None and info["fired"]["kind"] == "internal_linalg_error":
            # xitorch rescued the failing internal call (regularised retry): the numbers of this and of every later
            # operation may legitimately differ from the fault-free execution; the state invariants still apply
            state["no_i6"] = True
            info["fired"]["rescued"] = True
        elif fired_here and out.raised is None:
            # the library absorbed the callee's failure and returned a result (nothing does today): its numbers may
            # legitimately differ from the fault-free execution; the state invariants still apply
            state["no_i6"] = True
            info["fired"]["absorbed"] = True
        if fired_here and out.raised is not None:
            SIM.set_plan({})
            retry = OpOutcome()
            befores2 = [Snapshot(a) for a in env.actors]
            try:
                with warnings.catch_warnings():
                    warnings.simplefilter("ignore")
                    retry.value = with_debug(op, lambda: with_nest(op, lambda: run_op_body(op), fspec))
            except BaseException as e:   # noqa
                retry.raised = e
            check_state("after-retry", befores2, opidx, opname)
            if is_debug_enabled() != flag_before:
                viol.append({"inv": "I2.debug_flag", "where": "after-retry", "op": opidx, "opname": opname,
                             "detail": "debug flag changed by the retried operation"})
                set_debug_mode(flag_before)
            rec["retry_raised"] = type(retry.raised).__name__ if retry.raised is not None else None
            out = retry
            if reference is not None:
                ref = reference[opidx]
                if ref["raised"] is None:
                    if retry.raised is not None:
                        viol.append({"inv": "I6.retry_raises", "where": "retry", "op": opidx, "opname": opname,
                                     "detail": "fault-free retry on the same objects raised %s: %s" %
                                               (type(retry.raised).__name__, str(retry.raised)[:300])})
                    elif not vals_close(_detach_vals(retry.value), ref["value"]):
                        viol.append({"inv": "I6.retry_value", "where": "retry", "op": opidx, "opname": opname,
                                     "detail": "fault-free retry on the same objects gives a different result than "
                                               "the fault-free reference execution"})
        elif reference is not None and out.raised is None and reference[opidx]["raised"] is None and \
                info["fired"] is not None and not state.get("no_i6"):
            # operations after the faulted one: same objects, so same answers
            if not vals_close(_detach_vals(out.value), reference[opidx]["value"]):
                viol.append({"inv": "I6.later_value", "where": "later-op", "op": opidx, "opname": opname,
                             "detail": "an operation after the faulted one gives a different result than in the "
                                       "fault-free reference execution"})
        # ---- bookkeeping of live results
        if op["op"] == "FWD":
            env.pool.append(out.value if out.raised is None else None)
        elif op["cg"]:
            if out.raised is None and out.value is not None:
                gs = [g for g in out.value if g is not None and g.requires_grad]
                env.pool.append(sum((g * g).sum() for g in gs) if gs else None)
            else:
                env.pool.append(None)
        values.append({"raised": type(out.raised).__name__ if out.raised is not None else None,
                       "value": _detach_vals(out.value) if out.raised is None else None})
        for v in viol[nviol0:]:
            v["ctx"] = ctx_tag
        rec["events"] = (ev_start + 1, SIM.seq)
        info["ops"].append(rec)
        SIM.note("op", opidx, opname, raised_name)

    # ---- end of history
    nviol_end = len(viol)
    for a, sn in zip(env.actors, init_snaps):
        for inv, detail in compare(sn, a):
            viol.append({"inv": inv, "where": "end-of-history", "op": len(sc["ops"]), "opname": "end",
                         "detail": "end of history: %s" % detail})
    if is_debug_enabled() != flag_expected:
        viol.append({"inv": "I2.debug_flag", "where": "end-of-history", "op": len(sc["ops"]), "opname": "end",
                     "detail": "debug flag at the end differs from its value at the start"})
    # I3: every wrapper the harness holds is reusable (state-change lock released, restore stack consistent)
    for key, pf in list(env.pfs.items()):
        try:
            cur = list(pf.objparams())
            new = [p.detach().clone() for p in cur]
            ids0 = [idents(a) for a in env.actors]
            with pf.useobjparams(new):
                pass
            if [idents(a) for a in env.actors] != ids0:
                viol.append({"inv": "I3.wrapper_reuse", "where": "end-of-history", "op": len(sc["ops"]), "opname": "end",
                             "detail": "a fresh substitution through a held wrapper does not restore"})
            # after a round trip the wrapper's report of the installed tensors must be the truth (tensors the
            # objects hold now); before it, a wrapper made under another substitution may lag behind - that is
            # internal bookkeeping, not state of the user's object
            held = set()
            for a in env.actors:
                held.update(idents(a))
            ghosts = [j for j, p in enumerate(pf.objparams()) if id(p) not in held]
            if ghosts:
                viol.append({"inv": "I3.wrapper_reuse", "where": "end-of-history", "op": len(sc["ops"]), "opname": "end",
                             "detail": "after a substitution round trip the wrapper reports tensors %s that the "
                                       "object does not hold" % ghosts})
        except Exception as e:
            viol.append({"inv": "I3.wrapper_locked", "where": "end-of-history", "op": len(sc["ops"]), "opname": "end",
                         "detail": "held wrapper cannot be used after the history: %s: %s" % (type(e).__name__, e)})
    for v in viol[nviol_end:]:
        v["ctx"] = "mismatch" if state.get("tainted") else "same"
    mon.uninstall()
    internal.__exit__()
    info["linalg_calls"] = internal.n
    set_debug_mode(False)
    info["N"] = SIM.seq
    info["counters"] = dict(SIM.counters)
    info["monitor_pushes"] = mon.pushes
    info["monitor_maxdepth"] = mon.maxdepth
    info["monitor_skipped"] = mon.skipped
    info["digest"] = SIM.digest()
    return {"values": values, "N": SIM.seq, "violations": viol, "info": info}


# -------------------------------------------------------------------- a run
def crash_points(cs, N, cfg, opranges):
    """quick: per operation of the history its first two and last two events plus drawn ones
    (so that backward passes get their share); thorough: every k in 1..N"""
    if N == 0:
        return []
    if cfg["crash_points"] == "all":
        return list(range(1, min(N, cfg.get("max_points", 100000)) + 1))
    ks = set()
    for (a, b) in opranges:
        if b < a:
            continue
        for k in (a, a + 1, b - 1, b):
            if a <= k <= b:
                ks.add(k)
        for _ in range(cfg.get("drawn_per_op", 4)):
            ks.add(a + cs.draw(b - a + 1, "k"))
    return sorted(ks)


def functional_label(sc, opidx):
    ops = sc["ops"]
    j = min(opidx, len(ops) - 1)
    while j >= 0 and ops[j]["op"] != "FWD":
        j -= 1
    if j < 0:
        return ("?", "?")
    F = ops[j]["F"]
    return (F["F"], str(F.get("method", F.get("product", F.get("limits", "")))))


def kind_label(sc):
    if sc["family"] == 0:
        return (AC.ALL_KINDS + AC.C10_EXTRA_KINDS)[sc["kind"]].__name__
    return AC.LO_KINDS[sc["kind"]].__name__ + ["", "+B", "*2", "@B"][sc["composite"]]


def run(cs, cfg):
    sc = draw_scenario(cs, cfg)
    stats = {}
    cases = set()
    viol_out = []

    def cnt(k, n=1):
        stats[k] = stats.get(k, 0) + n

    decoded = {"scenario": {k: v for k, v in sc.items() if k != "ops"}, "kind": kind_label(sc),
               "ops": [dict(op) for op in sc["ops"]]}
    ref = execute(sc, {})
    N = ref["N"]
    decoded["N"] = N
    decoded["reference"] = ref["info"]["ops"]
    cnt("scenarios")
    cnt("events", N)
    evals = 1
    events = N
    digests = [ref["info"]["digest"]]
    if ref["info"]["monitor_skipped"]:
        cnt("monitor_skipped")
    cnt("reach.monitor_maxdepth>=2", 1 if ref["info"]["monitor_maxdepth"] >= 2 else 0)
    for k_, v_ in ref["info"].get("counters", {}).items():
        cnt(k_, v_)
    cnt("reach.monitor_maxdepth>=3", 1 if ref["info"]["monitor_maxdepth"] >= 3 else 0)
    for oi, v in enumerate(ref["values"]):
        if v["raised"] is not None:
            cnt("reference_raised")
            F = functional_label(sc, oi)
            cnt("refraise.%s.%s.%s.%s" % (sc["ops"][oi]["op"], F[0], F[1], v["raised"]))

    def add_viol(v, plan_desc, fired):
        F = functional_label(sc, v["op"])
        sig = {"inv": v["inv"], "functional": F[0], "kind": kind_label(sc), "where": v["where"],
               "ctx": v.get("ctx", "same")}
        if fired is not None:
            sig["phase"] = "backward" if fired["in_backward"] else "forward"
            sig["debug"] = str(fired["debug"])
        else:
            sig["phase"] = "no-fault"
            sig["debug"] = "-"
        viol_out.append({"sig": sig, "detail": "%s | fault=%s | functional=%s kind=%s fkind=%s | op#%d %s" %
                         (v["detail"], plan_desc, F, kind_label(sc), sc["fkind"], v["op"], v["opname"])})

    for v in ref["violations"]:
        add_viol(v, "none", None)

    ks = crash_points(cs, N, cfg, [tuple(o["events"]) for o in ref["info"]["ops"]])
    decoded["crash_points"] = ks
    decoded["faulted"] = []
    for k in ks:
        kind = "abort" if cs.bool("abort", 1, cfg["abort_den"]) else "raise"
        if kind == "raise" and cs.bool("domain_error_class", 1, 5):
            # the classes a domain check inside the user's function raises (and a library might be tempted to handle)
            kind = ["value", "runtime", "fpe"][cs.draw(3, "domain_error_which")]
        r = execute(sc, {k: kind}, reference=ref["values"])
        evals += 1
        events += r["N"]
        digests.append(r["info"]["digest"])
        fired = r["info"]["fired"]
        if fired is None:
            cnt("fault_not_reached")
            continue
        cnt("fault." + kind)
        if fired["substituted"]:
            cnt("reach.fault_while_substituted")
        if fired["in_backward"]:
            cnt("reach.fault_in_backward")
        if fired["debug"]:
            cnt("reach.fault_in_debug_mode")
        if fired["nest_depth"] >= 1:
            cnt("reach.fault_inside_harness_nesting")
        if fired["nest_depth"] >= 2:
            cnt("reach.fault_inside_harness_nesting>=2")
        if fired["monitor_depth"] >= 2:
            cnt("reach.fault_at_substitution_depth>=2")
        if fired.get("reached_caller_as") is None:
            cnt("fault_swallowed")
        elif fired["reached_caller_as"] not in ("InjectedFault", "InjectedAbort", "ValueError", "RuntimeError",
                                                "FloatingPointError"):
            cnt("fault_rewrapped")
        cnt("fault.retry_after_fault")
        F = functional_label(sc, fired.get("op", 0))
        if fired["substituted"] or fired["dbg_override"] or fired["in_backward"] or fired["nest_depth"] > 0:
            cases.add("|".join(str(x) for x in (F[0], F[1], kind_label(sc), sc["fkind"],
                                                "bwd" if fired["in_backward"] else "fwd", fired["debug"],
                                                fired["substituted"], fired["nest_depth"], kind)))
        for v in r["violations"]:
            add_viol(v, "%s@%d in %s" % (kind, k, fired["probe"]), fired)
        if len(decoded["faulted"]) < 6:
            decoded["faulted"].append({"k": k, "kind": kind, "fired": fired, "ops": r["info"]["ops"],
                                       "violations": [v["inv"] for v in r["violations"]]})
    # ---- an internal failure: the j-th dense solve of the history raises LAPACK's error once
    M = ref["info"].get("linalg_calls", 0)
    njs = 0 if M == 0 else (min(M, 3) if cfg["crash_points"] == "subset" else min(M, 12))
    js = sorted(set(1 + cs.draw(M, "linalg_j") for _ in range(njs)))
    decoded["internal_failure_points"] = js
    for j in js:
        r = execute(sc, {}, reference=ref["values"], linalg_j=j)
        evals += 1
        events += r["N"]
        digests.append(r["info"]["digest"])
        fired = r["info"]["fired"]
        if fired is None:
            cnt("fault_not_reached")
            continue
        cnt("fault.internal_linalg_error")
        if fired.get("rescued"):
            cnt("reach.internal_failure_rescued_by_xitorch")
        elif fired.get("reached_caller_as") is not None:
            cnt("reach.internal_failure_reached_the_caller")
            cnt("fault.retry_after_fault")
        if fired["substituted"]:
            cnt("reach.internal_failure_while_substituted")
        if fired["in_backward"]:
            cnt("reach.internal_failure_in_backward")
        F = functional_label(sc, fired.get("op", 0))
        cases.add("|".join(str(x) for x in (F[0], F[1], kind_label(sc), sc["fkind"],
                                            "bwd" if fired["in_backward"] else "fwd", fired["debug"],
                                            fired["substituted"], fired["nest_depth"], "internal_linalg_error")))
        for v in r["violations"]:
            add_viol(v, "internal_linalg_error@solve#%d" % j, fired)
        if len(decoded["faulted"]) < 8:
            decoded["faulted"].append({"j": j, "kind": "internal_linalg_error", "fired": fired, "ops": r["info"]["ops"],
                                       "violations": [v["inv"] for v in r["violations"]]})
    # one digest for the run
    import hashlib
    h = hashlib.sha256("".join(digests).encode()).hexdigest()
    return {"violations": viol_out, "stats": stats, "cases": sorted(cases), "decoded": decoded,
            "digest": h, "evals": evals, "events": events}
