"""C17 - jac and hess are the true Jacobian/Hessian as differentiable operators:
the *history* part of the property.

A jac/hess operator caches an autograd graph and reuses it only while the
identities of its parameter tensors are unchanged; every backward pass of
solve/rootfinder substitutes fresh tensors into it (uselinopparams), evaluates
products under the substitution, differentiates them with respect to the
substitutes, and restores.  That is a history: substitute -> product -> nested
substitute -> product -> failure inside a re-evaluation -> retry -> restore ->
product.  The simulator generates such histories on ONE operator; the oracle
after every step is a plain-torch dense Jacobian/Hessian of the same function
**at the currently installed parameter values** (torch.autograd.functional),
for values (1e-9), first-order gradients and second-order gradients (1e-8)
with respect to everything currently installed, plus the state invariants of
C10 for the user's object.  The input-quantified bulk of C17 (all shapes, all
index selections) is exercised only as this per-step oracle on small shapes.

Faults: the user's function raises at event k (an evaluation that only happens
when the cache is invalid), then the same request is retried fault-free; and
requests that must be rejected (derivative with respect to a non-tensor or a
tensor that does not require grad).
"""
from __future__ import annotations

import sys
import warnings

import torch

from xsim.probe import SIM, InjectedFault
from xsim import actors as AC
from xsim.snapshot import Snapshot, compare, idents

PID = "C17"
LEVEL = "exploration"
TIERS = {
    "quick": {"runs": 3200, "batch": 4, "timeout_s": 600, "max_ops": 9, "faulted": 2, "shrink_budget": 80},
    "thorough": {"runs": 40000, "batch": 8, "timeout_s": 1800, "max_ops": 14, "faulted": 6, "shrink_budget": 160},
}
RULE = ("History on ONE operator: (jac|hess) x function kind [plain function with explicit tensors, method of 9 "
        "EditableModule kinds / 5 nn.Module kinds, pre-built PureFunction, sibling] x argument shapes [(n,), (n,1), (1,n), "
        "0-d; non-tensor arguments interleaved or an all-tensor list; python-float / no-grad arguments; the caller re-using its argument list for the next point after making the operator] x index selection [int, None, sequence; "
        "invalid index as a request that must be rejected] x <=9 (quick) operations: product in {mv,rmv,mm,rmm,fullmatrix,"
        "H.mv,H.rmv,H.mm,H.fullmatrix} with operand batch rank 0-2 under no_grad/enable_grad; first- and second-order "
        "gradient of the last product w.r.t. everything currently installed; substitute fresh tensors through "
        "uselinopparams (nested <=3; all new / partly identical / only the object's tensors / only the explicit arguments); leave the innermost substitution; solve(J,B) with "
        "cg/bicgstab/exactsolve/custom_exactsolve + its gradient; a first-order gradient taken WITHOUT retaining the graph of the product (one in three); a product of a sibling operator from the same jac()/hess() call (other argument) while substitutions are open on the operator under test; in a quarter of the histories the operator is made inside a caller-opened substitution of the object's tensors, which in half of those ends right after the construction (the operator outlives it). One fault-free execution numbers the N entries into the "
        "user's function, then <=2 (quick) executions with the function raising at a drawn entry k and the request "
        "retried. A case is non-trivial iff a product or gradient was judged under a substitution (cache-miss path) AND "
        "one after it was left or before it (cache-hit path); distinct = distinct (jac|hess, function kind, object kind, "
        "target argument, shapes, sequence of operation kinds) tuples.")
ASSUMPTIONS = [
    "the dense reference (torch.autograd.functional.jacobian/hessian of a plain-torch re-implementation at the "
    "currently installed values) is right; tolerances 1e-9 (values), 1e-8 (gradients) with absolute floors, on "
    "functions built from tanh/polynomials with O(1) arguments",
    "solve() steps are judged at 1e-6 for iterative methods run with tight tolerances, and skipped (counted) when the "
    "dense reference matrix has condition number above 1e3",
    "substitution of the module's tensors by a *caller-owned* wrapper around the operator (not through the "
    "operator's own uselinopparams) is outside the statement and not generated",
]
REAL = ["xitorch.grad.jac / hess / _Jac, xitorch.LinearOperator products and uselinopparams, PureFunction substitution, "
        "xitorch.linalg.solve (forward and implicit backward) from /repo working tree", "torch autograd"]
STUB = ["the user's function and the object holding its parameters (xsim.actors; every entry a numbered probe)",
        "the fault injector (raise@k inside a re-evaluation)", "the caller (history of products, substitutions, gradients)",
        "dense reference Jacobian/Hessian (torch.autograd.functional)"]

VTOL = 1e-9
GTOL = 1e-8
PRODS = ["mv", "rmv", "mm", "rmm", "fullmatrix", "H.mv", "H.rmv", "H.mm", "H.fullmatrix"]
XBATCH = [(), (2,), (1,), (2, 1), (1, 3)]
FKINDS = ["plain", "method", "pf", "sibling"]


# ----------------------------------------------------------------- scenario
def draw_scenario(cs, cfg):
    sc = {}
    sc["which"] = ["jac", "hess"][cs.weighted([3, 2], "which")]
    sc["n"] = cs.randint(1, 3, "n")
    sc["k"] = cs.randint(1, sc["n"], "k") if sc["which"] == "jac" else cs.randint(1, sc["n"], "k")
    if sc["which"] == "jac" and cs.bool("square", 1, 2):
        sc["k"] = sc["n"]
    sc["valseed"] = cs.draw(1000, "valseed")
    sc["fkind"] = FKINDS[cs.weighted([2, 4, 2, 2], "fkind")]
    sc["kind"] = cs.draw(len(AC.ALL_KINDS), "kind")
    n, k = sc["n"], sc["k"]
    xshapes = [(n,), (n, 1), (1, n)] + ([()] if n == 1 else [])
    sc["xshape"] = list(xshapes[cs.draw(len(xshapes), "xshape")])
    if sc["which"] == "jac":
        oshapes = [(k,), (k, 1), (1, k)] + ([()] if k == 1 else [])
    else:
        oshapes = [(), (1,), (1, 1)]
    sc["oshape"] = list(oshapes[cs.draw(len(oshapes), "oshape")])
    sc["skind"] = ["tensor_grad", "tensor_nograd", "float"][cs.weighted([4, 1, 2], "skind")]
    sc["cgrad"] = not cs.bool("c_nograd", 1, 4)
    sc["c_nonleaf"] = sc["cgrad"] and cs.bool("c_nonleaf", 1, 3)      # a differentiable argument that is an intermediate result
    sc["construct_nograd"] = cs.bool("construct_nograd", 1, 4)          # jac()/hess() called with grad recording off
    # the operator is made (and used) while a caller-opened substitution has replaced the object's tensors -
    # what every enclosing functional's backward pass does to a functional called inside its user function
    sc["construct_under_subst"] = sc["fkind"] != "plain" and cs.bool("construct_under_subst", 1, 4)
    # ... and in half of those the substitution ends right after the construction: the operator outlives the block
    # it was made in (what every rootfinder backward does) and goes on describing the function at ITS tensors
    sc["outer_exit"] = bool(sc["construct_under_subst"]) and cs.bool("outer_exit_after_construct", 1, 2)
    # plain functions: the argument list holds tensors only (shape and size are closed over) - with every one of them
    # differentiable the library has no reason to build a list of its own, so it must take care not to keep the caller's
    sc["tensor_only_params"] = sc["fkind"] == "plain" and cs.bool("tensor_only_params", 1, 2)
    # the caller goes on using ITS list: right after making the operator it puts the next point into the same list
    sc["caller_reuses_list"] = cs.bool("caller_reuses_list", 1, 3)
    sc["rgW"] = not cs.bool("W_nograd", 1, 6)
    sc["rgb"] = not cs.bool("b_nograd", 1, 6)
    # which argument the derivative is taken with respect to
    targets = ["x"]
    if sc["which"] == "jac":
        if sc["cgrad"]:
            targets.append("c")
        if sc["skind"] == "tensor_grad":
            targets.append("s")
        if sc["fkind"] == "plain" and sc["rgW"]:
            targets.append("W")
    sc["target"] = targets[cs.weighted([6] + [1] * (len(targets) - 1), "target")]
    sc["idxform"] = ["int", "none", "seq"][cs.weighted([3, 1, 1], "idxform")]
    sc["invalid_idx"] = cs.bool("invalid_idx", 1, 10)
    nops = cs.randint(2, cfg["max_ops"], "nops")
    ops = []
    depth = 0
    have_prod = False
    for i in range(nops):
        w = [7, 3 if have_prod else 0, 1 if have_prod else 0, 4 if depth < 3 else 0, 3 if depth > 0 else 0, 2,
             3 if sc["idxform"] != "int" else 0]
        o = cs.weighted(w, "op")
        if o == 6:
            # a product of a SIBLING operator (same jac()/hess() call, other argument): whatever is substituted into
            # the operator under test, the sibling describes the function at its own, original tensors
            ops.append({"op": "sibprod", "prod": ["fullmatrix", "mv", "rmv"][cs.draw(3, "sibprodkind")],
                        "nograd": cs.bool("nograd", 1, 3), "seed": cs.draw(1000, "vseed")})
            continue
        if o == 0:
            p = PRODS[cs.weighted([3, 3, 2, 2, 2, 1, 1, 1, 1], "prod")]
            if sc["which"] == "hess" and p.startswith("H."):
                p = p[2:]
            ops.append({"op": "prod", "prod": p, "xbatch": list(XBATCH[cs.weighted([5, 2, 1, 1, 1], "xb")]),
                        "r": cs.randint(1, 2, "r"), "nograd": cs.bool("nograd", 1, 5), "seed": cs.draw(1000, "vseed")})
            have_prod = True
        elif o == 1:
            # in one case in three the caller's backward pass does not retain the graph of the product: every later
            # product of the same operator must still be right and differentiable
            ops.append({"op": "grad1", "free": cs.bool("free_graph", 1, 3)})
        elif o == 2:
            ops.append({"op": "grad2"})
        elif o == 3:
            ops.append({"op": "subst", "how": ["all_new", "partly_identical", "identical", "only_object", "only_explicit"][
                            cs.weighted([6, 2, 1, 2, 2], "how")],
                        "seed": cs.draw(1000, "sseed")})
            depth += 1
            have_prod = False
        elif o == 4:
            ops.append({"op": "leave"})
            depth -= 1
            have_prod = False
        else:
            ops.append({"op": "solve", "method": cs.choice(["exactsolve", "custom_exactsolve", "bicgstab", "cg"], "sm"),
                        "grad": cs.bool("solvegrad", 2, 3), "seed": cs.draw(1000, "bseed")})
            have_prod = False
    sc["ops"] = ops
    return sc


class Env(object):
    pass


def build_env(sc):
    from xitorch._core.pure_function import get_pure_function, make_sibling
    env = Env()
    env.sc = sc
    n, k = sc["n"], sc["k"]
    vals = AC.make_values(sc["valseed"], n)
    g = torch.Generator()
    g.manual_seed(777 + sc["valseed"])
    x = (0.4 * torch.randn(tuple(sc["xshape"]), generator=g, dtype=AC.DT)).requires_grad_()
    c = (0.5 * torch.randn(n, generator=g, dtype=AC.DT) + 1.0).requires_grad_(sc["cgrad"])
    if sc.get("c_nonleaf"):
        env.c_leaf = c
        c = c * 1.0
    if sc["skind"] == "float":
        s = 0.8
    else:
        s = torch.tensor(0.8, dtype=AC.DT).requires_grad_(sc["skind"] == "tensor_grad")
    oshape = tuple(sc["oshape"])
    ref = AC.j17_ref if sc["which"] == "jac" else AC.h17_ref
    env.ref = ref
    env.actor = None
    if sc["fkind"] == "plain":
        W = vals["W"].clone().requires_grad_(sc["rgW"])
        b = vals["b"].clone().requires_grad_(sc["rgb"])

        def fplain(x, oshape, c, k, s, W, b):
            SIM.enter("fplain", None)
            return ref(W, b, x, oshape, c, k, s)
        env.fcn = fplain
        env.params = [x, oshape, c, k, s, W, b]
        env.names = ["x", None, "c", None, "s", "W", "b"]
        if sc.get("tensor_only_params"):
            def fplain_t(x, c, s, W, b):
                SIM.enter("fplain", None)
                return ref(W, b, x, oshape, c, k, s)
            env.fcn = fplain_t
            env.params = [x, c, s, W, b]
            env.names = ["x", "c", "s", "W", "b"]
    else:
        a = AC.build_actor(AC.ALL_KINDS[sc["kind"]], vals, sc["rgW"], sc["rgb"])
        env.actor = a
        m = a.f_j17 if sc["which"] == "jac" else a.f_h17
        if sc["fkind"] == "method":
            env.fcn = m
        elif sc["fkind"] == "pf":
            env.fcn = get_pure_function(m)
        else:
            @make_sibling(m)
            def fsib(*args):
                return m(*args)
            env.fcn = fsib
        env.params = [x, oshape, c, k, s]
        env.names = ["x", None, "c", None, "s"]
    env.level0 = {nm: p for nm, p in zip(env.names, env.params) if nm is not None}
    # the reference evaluates the user's object at the values installed at the current level through a wrapper
    # of its own (never shared with the operator under test)
    env.refpf = get_pure_function(m) if env.actor is not None else None
    env.level0["obj"] = list(env.refpf.objparams()) if env.refpf is not None else []
    env.nin = env.level0[sc["target"]].numel()
    env.nout = k if sc["which"] == "jac" else env.nin
    if sc["which"] == "hess":
        env.nout = env.nin
    return env


def ref_call(env, level):
    """plain-torch evaluation at the values of `level` (explicit arguments) and of whatever
    the user's object holds right now (module-held tensors, through its own accessors)"""
    a = level
    if env.actor is None:
        W, b = a["W"], a["b"]
    else:
        W, b = env.actor._W(), env.actor._b()
    return env.ref(W, b, a["x"], tuple(env.sc["oshape"]), a["c"], env.sc["k"], a["s"])


def dense_ref(env, level, tgt=None):
    """dense (nout x nin) Jacobian/Hessian at the currently installed values, differentiable"""
    tgt = env.sc["target"] if tgt is None else tgt
    pt = level[tgt]
    nin = pt.numel()

    def fn(p):
        lv = dict(level)
        lv[tgt] = p
        return ref_call(env, lv)

    def compute():
        if env.sc["which"] == "jac":
            J = torch.autograd.functional.jacobian(fn, pt, create_graph=True)
            return J.reshape(env.nout, nin)
        H = torch.autograd.functional.hessian(lambda p: fn(p).reshape(()), pt, create_graph=True)
        return H.reshape(nin, nin)
    if env.refpf is None:
        return compute()
    SIM.enabled = False       # the reference's own evaluations are not events of the system under test
    try:
        with env.refpf.useobjparams(list(level["obj"])):
            return compute()
    finally:
        SIM.enabled = True


def current_leaves(env, level):
    out = []
    seen = set()
    for nm in ("x", "c", "s", "W", "b"):
        t = level.get(nm)
        if isinstance(t, torch.Tensor) and t.requires_grad and id(t) not in seen:
            seen.add(id(t))
            out.append(t)
    for t in level.get("obj", []):
        if isinstance(t, torch.Tensor) and t.requires_grad and id(t) not in seen:
            seen.add(id(t))
            out.append(t)
    return out


def tclose(a, b, tol):
    if a is None and b is None:
        return True, ""
    if a is None:
        a = torch.zeros_like(b)
    if b is None:
        b = torch.zeros_like(a)
    if tuple(a.shape) != tuple(b.shape):
        return False, "shape %s vs reference %s" % (tuple(a.shape), tuple(b.shape))
    scale = max(1.0, float(b.abs().max()) if b.numel() else 1.0)
    err = float((a - b).abs().max()) if a.numel() else 0.0
    if not (err <= tol * scale * 10 + tol * 0.01) or a.isnan().any():
        return False, "max abs err %.3e (scale %.2e, tol %.0e)" % (err, scale, tol)
    return True, ""


# ------------------------------------------------------------ one execution
def execute(sc, plan, reference=None):
    from xitorch.grad import jac, hess
    from xitorch.linalg import solve
    SIM.reset()
    torch.manual_seed(sc["valseed"])     # the posdef probe of cg/bicgstab draws its start vector from the global RNG
    env = build_env(sc)
    viol = []
    info = {"ops": [], "fired": None, "hits": 0, "misses": 0, "judged_sub": 0, "judged_plain": 0, "discarded": 0}

    def V(inv, opname, detail, **extra):
        d = {"inv": inv, "opname": opname, "detail": detail}
        d.update(extra)
        viol.append(d)

    true_snap = Snapshot(env.actor, "obj") if env.actor is not None else None
    outer_cm = None
    if sc.get("construct_under_subst") and env.actor is not None:
        from xitorch._core.pure_function import get_pure_function
        outer_pf = get_pure_function(env.actor.f_j17 if sc["which"] == "jac" else env.actor.f_h17)
        clones = [(p.detach() * 0.9 + 0.05).requires_grad_() for p in outer_pf.objparams()]
        outer_cm = outer_pf.useobjparams(clones)
        outer_cm.__enter__()
        env.level0["obj"] = list(clones)
        SIM.count("reach.operator_made_under_substitution")
    init_snap = Snapshot(env.actor, "obj") if env.actor is not None else None
    # ---- build the operator
    tgt = sc["target"]
    idx = env.names.index(tgt)
    maker = jac if sc["which"] == "jac" else hess
    with warnings.catch_warnings():
        warnings.simplefilter("ignore")
        if sc["invalid_idx"]:
            # a derivative with respect to a non-differentiable argument must be rejected
            bad = []
            for i, (nm, p) in enumerate(zip(env.names, env.params)):
                if not (isinstance(p, torch.Tensor) and p.requires_grad):
                    bad.append(i)
            for i in bad[:2]:
                for form in ([i], i):
                    try:
                        maker(env.fcn, params=env.params, idxs=form)
                        V("invalid_idx_accepted", "construct", "%s(idxs=%r) accepted a derivative w.r.t. argument %d (%s)" %
                          (sc["which"], form, i, type(env.params[i]).__name__))
                    except Exception:
                        SIM.count("reach.invalid_idx_rejected")
            SIM.count("fault.invalid_op", 2 * len(bad[:2]))
        form = sc["idxform"]
        sibs = []
        import contextlib as _cl
        try:
          with (torch.no_grad() if sc.get("construct_nograd") else _cl.nullcontext()):
              if form == "int":
                  op = maker(env.fcn, params=env.params, idxs=idx)
              elif form == "none":
                  lst = maker(env.fcn, params=env.params, idxs=None)
                  want = [i for i, p in enumerate(env.params) if isinstance(p, torch.Tensor) and p.requires_grad]
                  if len(lst) != len(want):
                      V("idxs_none_count", "construct", "idxs=None returned %d operators, %d differentiable arguments" %
                        (len(lst), len(want)))
                  op = lst[want.index(idx)]
                  sibs = [(o_, i_) for o_, i_ in zip(lst, want) if i_ != idx]
              else:
                  other = [i for i, p in enumerate(env.params) if isinstance(p, torch.Tensor) and p.requires_grad and i != idx]
                  seq = ([other[0]] if other else []) + [idx]
                  lst = maker(env.fcn, params=env.params, idxs=seq)
                  op = lst[-1]
                  sibs = [(o_, i_) for o_, i_ in zip(lst, seq) if i_ != idx]
        except Exception as e:
            if not isinstance(e, InjectedFault):
                # jac()/hess() rejected a request the statement says is valid (or returned a list that does not match)
                V("construct_raises", "construct", "%s(idxs form %s, grad recording %s) raised %s: %s" %
                  (sc["which"], form, "off" if sc.get("construct_nograd") else "on", type(e).__name__, str(e)[:300]))
                for v in viol:
                    v.setdefault("op", -1)
                info["N"] = SIM.seq
                info["digest"] = SIM.digest()
                info["counters"] = dict(SIM.counters)
                if outer_cm is not None:
                    outer_cm.__exit__(None, None, None)
                return {"values": [], "N": SIM.seq, "violations": viol, "info": info}
            # the fault landed in the construction-time evaluation: nothing was substituted yet
            info["fired"] = {"k": SIM.seq, "op": -1, "opname": "construct"}
            if init_snap is not None:
                for inv, detail in compare(init_snap, env.actor):
                    V(inv, "construct", "after a failing construction: " + detail)
            info["N"] = SIM.seq
            info["digest"] = SIM.digest()
            if outer_cm is not None:
                outer_cm.__exit__(None, None, None)
            return {"values": [], "N": SIM.seq, "violations": viol, "info": info}
    if outer_cm is not None and sc.get("outer_exit"):
        outer_cm.__exit__(None, None, None)
        outer_cm = None
        for inv, detail in compare(true_snap, env.actor):
            V(inv, "construct", "after the substitution around the construction ended: " + detail)
        init_snap = Snapshot(env.actor, "obj")
        SIM.count("reach.operator_outlives_the_substitution_it_was_made_in")
    params_copy = list(env.params)
    if sc.get("caller_reuses_list"):
        # the list is the caller's: it now holds the next point (a new tensor in the differentiated slot); the operator
        # made before goes on describing the function at the point it was made for
        old_pt = env.params[idx]
        if isinstance(old_pt, torch.Tensor):
            env.params[idx] = (old_pt.detach() * 0.5 + 0.1).requires_grad_(old_pt.requires_grad)
            params_copy = list(env.params)
            SIM.count("reach.caller_reuses_its_parameter_list")
    if tuple(op.shape) != (env.nout, env.nin):
        V("operator_shape", "construct", "operator shape %s, expected (%d, %d)" % (tuple(op.shape), env.nout, env.nin))
    SIM.set_plan(plan)
    levels = [dict(env.level0)]
    ctxs = []          # (context manager, idents before entering)
    last = None        # (result, reference, leaves) of the last product
    values = []
    cur_op = [0]

    def weights(shape):
        # a function of the operation index only: a retried operation uses the same weights
        g = torch.Generator()
        g.manual_seed(4242 + cur_op[0])
        return torch.rand(shape, generator=g, dtype=AC.DT) + 0.5

    def check_state(opname):
        # a substitution into the operator reaches the user's object only while a product is being evaluated:
        # between operations the object always holds its own tensors
        if len(env.params) != len(params_copy) or any(a_ is not b_ for a_, b_ in zip(env.params, params_copy)):
            V("caller_list_modified", opname, "the list of arguments the caller handed to %s() was modified "
              "(open substitutions: %d)" % (sc["which"], len(ctxs)))
            env.params[:] = params_copy
        if env.actor is None:
            return
        if idents(env.actor) != init_snap.ident_tuple():
            V("state_after_op", opname, "after the operation the user's object does not hold its original tensors "
              "(open substitutions: %d)" % len(ctxs))

    def do_op(o):
        """performs one operation; returns a comparable value list (detached) or None"""
        nonlocal last
        level = levels[-1]
        kind = o["op"]
        sub = len(ctxs) > 0 and any(c[1] for c in ctxs)
        if kind == "prod":
            p = o["prod"]
            A = op.H if p.startswith("H.") else op
            pname = p[2:] if p.startswith("H.") else p
            transposed = p.startswith("H.")
            rows, cols = (env.nin, env.nout) if transposed else (env.nout, env.nin)
            g = torch.Generator()
            g.manual_seed(100 + o["seed"])
            if pname == "fullmatrix":
                v = None
            else:
                inner = cols if pname in ("mv", "mm") else rows
                shape = tuple(o["xbatch"]) + (inner,) + ((o["r"],) if pname in ("mm", "rmm") else ())
                v = torch.randn(shape, generator=g, dtype=AC.DT)
            ev0 = SIM.seq
            if o["nograd"]:
                with torch.no_grad():
                    res = getattr(A, pname)(*([] if v is None else [v]))
            else:
                res = getattr(A, pname)(*([] if v is None else [v]))
            if SIM.seq > ev0:
                info["misses"] += 1
            else:
                info["hits"] += 1
            if info.get("freed"):
                SIM.count("reach.product_after_non_retaining_backward")
            J = dense_ref(env, level)
            M = J.transpose(-2, -1) if transposed else J
            if pname == "fullmatrix":
                R = M
            elif pname == "mv":
                R = torch.matmul(M, v.unsqueeze(-1)).squeeze(-1)
            elif pname == "rmv":
                R = torch.matmul(M.transpose(-2, -1), v.unsqueeze(-1)).squeeze(-1)
            elif pname == "mm":
                R = torch.matmul(M, v)
            else:
                R = torch.matmul(M.transpose(-2, -1), v)
            ok, why = tclose(res.detach(), R.detach(), VTOL)
            if not ok:
                V("product_value", "prod." + p, "%s: %s (substituted=%s, depth %d)" % (p, why, sub, len(ctxs)),
                  sub=str(bool(sub)))
            info["judged_sub" if sub else "judged_plain"] += 1
            last = None if o["nograd"] else (res, R, current_leaves(env, level), sub)
            return [res.detach().clone()]
        if kind == "sibprod":
            if not sibs:
                return None
            sop, sidx = sibs[0]
            stgt = env.names[sidx]
            g = torch.Generator()
            g.manual_seed(100 + o["seed"])
            srows, scols = tuple(sop.shape)
            v = None if o["prod"] == "fullmatrix" else \
                torch.randn((scols if o["prod"] == "mv" else srows,), generator=g, dtype=AC.DT)
            with (torch.no_grad() if o["nograd"] else torch.enable_grad()):
                res = getattr(sop, o["prod"])(*([] if v is None else [v]))
            J = dense_ref(env, levels[0], tgt=stgt).detach()
            R = J if v is None else (J @ v if o["prod"] == "mv" else J.transpose(-2, -1) @ v)
            ok, why = tclose(res.detach(), R, VTOL)
            if not ok:
                V("sibling_product_value", "sibprod." + o["prod"], "product of the sibling operator (argument %s) while "
                  "%d substitution(s) are open on the operator under test: %s" % (stgt, len(ctxs), why), sub=str(bool(sub)))
            if sub:
                SIM.count("reach.sibling_product_under_substitution")
            return [res.detach().clone()]
        if kind in ("grad1", "grad2"):
            if last is None:
                return None
            res, R, leaves, sub = last
            if not leaves or not res.requires_grad:
                if R.requires_grad and leaves and any(
                        g is not None for g in torch.autograd.grad((R * 1.0).sum(), leaves, allow_unused=True, retain_graph=True)):
                    V("not_differentiable", kind, "the product does not require grad although the reference depends on "
                      "the installed tensors", sub=str(bool(sub)))
                return None
            w = weights(res.shape)
            cg = kind == "grad2"
            free = bool(o.get("free")) and not cg
            gx = torch.autograd.grad((res * w).sum(), leaves, allow_unused=True, retain_graph=not free, create_graph=cg)
            if free:
                last = None            # the graph of that product is gone; the operator must not care
                info["freed"] = True
                SIM.count("reach.non_retaining_backward_through_a_product")
            gr = torch.autograd.grad((R * w).sum(), leaves, allow_unused=True, retain_graph=True, create_graph=cg)
            for i, (a, b) in enumerate(zip(gx, gr)):
                ok, why = tclose(None if a is None else a.detach(), None if b is None else b.detach(), GTOL)
                if not ok:
                    V("gradient_first_order", kind, "d(product)/d(installed tensor #%d of shape %s): %s (substituted=%s)" %
                      (i, tuple(leaves[i].shape), why, sub), sub=str(bool(sub)))
            out = [None if a is None else a.detach().clone() for a in gx]
            info["judged_sub" if sub else "judged_plain"] += 1
            if cg:
                def sq(gs):
                    terms = [(a * a).sum() for a in gs if a is not None and a.requires_grad]
                    return sum(terms) if terms else None
                lx, lr = sq(gx), sq(gr)
                if lr is not None:
                    if lx is None:
                        V("gradient_second_order", kind, "first-order gradients carry no graph although the reference does",
                          sub=str(bool(sub)))
                    else:
                        g2x = torch.autograd.grad(lx, leaves, allow_unused=True, retain_graph=True)
                        g2r = torch.autograd.grad(lr, leaves, allow_unused=True, retain_graph=True)
                        for i, (a, b) in enumerate(zip(g2x, g2r)):
                            ok, why = tclose(None if a is None else a.detach(), None if b is None else b.detach(), GTOL * 10)
                            if not ok:
                                V("gradient_second_order", kind, "second-order gradient w.r.t. installed tensor #%d: %s "
                                  "(substituted=%s)" % (i, why, sub), sub=str(bool(sub)))
                        out += [None if a is None else a.detach().clone() for a in g2x]
            return out
        if kind == "subst":
            cur = list(op.getlinopparams())
            g = torch.Generator()
            g.manual_seed(300 + o["seed"])
            new = []
            objids = set(id(t) for t in level["obj"])
            for j, p in enumerate(cur):
                if o["how"] == "identical" or (o["how"] == "partly_identical" and j % 2 == 1) or \
                        (o["how"] == "only_object" and id(p) not in objids) or \
                        (o["how"] == "only_explicit" and id(p) in objids):
                    new.append(p)
                else:
                    q = (p.detach() * (1.0 + 0.1 * torch.randn((), generator=g, dtype=AC.DT)) +
                         0.05 * torch.randn(p.shape, generator=g, dtype=AC.DT)).requires_grad_()
                    new.append(q)
            changed = any(a is not b for a, b in zip(new, cur))
            cm = op.uselinopparams(*new)
            cm.__enter__()
            lvl = dict(level)
            for nm in ("x", "c", "s", "W", "b"):
                t = level.get(nm)
                if isinstance(t, torch.Tensor):
                    js = [j for j, p in enumerate(cur) if p is t]
                    if js:
                        lvl[nm] = new[js[0]]
            newobj = []
            for t in level["obj"]:
                js = [j for j, p in enumerate(cur) if p is t]
                newobj.append(new[js[0]] if js else t)
                if not js:
                    # the operator does not declare a tensor of the object among its parameters, so nothing that
                    # consumes the operator (solve, symeig) can differentiate with respect to it
                    V("operator_lacks_object_tensor", "subst", "a tensor held by the user's object is not among the "
                      "operator's parameters (getlinopparams)", sub=str(bool(sub)))
            lvl["obj"] = newobj
            levels.append(lvl)
            ctxs.append([cm, changed])
            last = None
            return None
        if kind == "leave":
            if not ctxs:
                return None
            cm, _ = ctxs.pop()
            levels.pop()
            cm.__exit__(None, None, None)
            last = None
            return None
        if kind == "solve":
            if env.nout != env.nin:
                return None
            J = dense_ref(env, level)
            Jd = J.detach()
            cond = float(torch.linalg.cond(Jd))
            if not (cond < 1e3):
                info["discarded"] += 1
                return None
            method = o["method"]
            if method == "cg":
                sym = Jd - Jd.transpose(-2, -1)
                if float(sym.abs().max()) > 1e-10 or float(torch.linalg.eigvalsh(0.5 * (Jd + Jd.transpose(-2, -1))).min()) < 0.3:
                    method = "bicgstab"
            g = torch.Generator()
            g.manual_seed(500 + o["seed"])
            B = torch.randn(env.nin, 2, generator=g, dtype=AC.DT).requires_grad_()
            opts = {}
            if method in ("cg", "bicgstab"):
                opts = {"rtol": 1e-13, "atol": 1e-14, "max_niter": 200}
            bck = {"method": "exactsolve"}
            Xr = torch.linalg.solve(J, B)
            X = solve(op, B, method=method, bck_options=bck, **opts)
            exact = method in ("exactsolve", "custom_exactsolve")
            tol = VTOL if exact else 1e-6
            ok, why = tclose(X.detach(), Xr.detach(), tol)
            if not ok:
                V("solve_value", "solve." + method, "solve(J, B, method=%s): %s (substituted=%s)" % (method, why, sub),
                  sub=str(bool(sub)))
            out = [X.detach().clone()]
            if o["grad"] and X.requires_grad:
                leaves = current_leaves(env, level) + [B]
                w = weights(X.shape)
                # retain_graph: with exactsolve the result's graph runs through the operator's cached graph, and a
                # non-retaining backward would free it for every later product (plain torch semantics, not judged)
                gx = torch.autograd.grad((X * w).sum(), leaves, allow_unused=True, retain_graph=True)
                gr = torch.autograd.grad((Xr * w).sum(), leaves, allow_unused=True, retain_graph=True)
                for i, (a, b) in enumerate(zip(gx, gr)):
                    ok, why = tclose(None if a is None else a.detach(), None if b is None else b.detach(),
                                     GTOL if exact else 1e-5)
                    if not ok:
                        V("solve_gradient", "solve." + method, "d solve(J,B)/d(installed tensor #%d of shape %s): %s "
                          "(method=%s, substituted=%s)" % (i, tuple(leaves[i].shape), why, method, sub), sub=str(bool(sub)))
                out += [None if a is None else a.detach().clone() for a in gx]
                info["judged_sub" if sub else "judged_plain"] += 1
            last = None
            return out
        raise AssertionError(kind)

    with warnings.catch_warnings():
        warnings.simplefilter("ignore")
        for opidx, o in enumerate(sc["ops"]):
            opname = o["op"] + ("." + o["prod"] if o["op"] == "prod" else "")
            nv0 = len(viol)
            ev0 = SIM.seq
            rec = {"op": opname, "depth": len(ctxs)}
            cur_op[0] = opidx
            val = None
            raised = None
            try:
                torch.manual_seed(7000 + opidx)
                val = do_op(o)
            except InjectedFault as e:
                raised = e
            except Exception as e:
                raised = e
                # xitorch (or torch) rejected a request the model says is valid
                import os as _os
                if _os.environ.get("XSIM_TRACE"):
                    import traceback as _tb
                    _tb.print_exc(file=sys.__stderr__)
                V("unexpected_exception", opname, "%s: %s" % (type(e).__name__, str(e)[:300]),
                  sub=str(bool(ctxs)))
            rec["raised"] = type(raised).__name__ if raised is not None else None
            if raised is None or isinstance(raised, InjectedFault):
                check_state(opname)
            if isinstance(raised, InjectedFault):
                info["fired"] = {"k": SIM.seq, "op": opidx, "opname": opname, "depth": len(ctxs)}
                SIM.set_plan({})
                try:
                    torch.manual_seed(7000 + opidx)
                    val = do_op(o)
                    rec["retry"] = "ok"
                except Exception as e:
                    rec["retry"] = type(e).__name__
                    V("retry_raises", opname, "fault-free retry raised %s: %s" % (type(e).__name__, str(e)[:300]))
                check_state(opname)
            if reference is not None and opidx < len(reference) and val is not None and reference[opidx] is not None:
                refv = reference[opidx]
                if len(refv) == len(val):
                    for a, b in zip(val, refv):
                        ok, why = tclose(a, b, 1e-10)
                        if not ok:
                            V("differs_from_fault_free", opname, "result differs from the fault-free execution: " + why)
                            break
            values.append(val)
            for v in viol[nv0:]:
                v["op"] = opidx
            rec["events"] = SIM.seq - ev0
            info["ops"].append(rec)
            SIM.note("op", opidx, opname, rec["raised"])
        # ---- unwind what is still open, then the original values must be back
        while ctxs:
            cm, _ = ctxs.pop()
            levels.pop()
            cm.__exit__(None, None, None)
        if init_snap is not None:
            for inv, detail in compare(init_snap, env.actor):
                V(inv, "end", "end of history: " + detail)
        try:
            v = torch.linspace(0.5, 1.5, env.nin, dtype=AC.DT)
            ev0 = SIM.seq
            res = op.mv(v)
            R = dense_ref(env, levels[0]) @ v
            ok, why = tclose(res.detach(), R.detach(), VTOL)
            if not ok:
                V("product_value", "end.mv", "after all substitutions were left, mv differs from the reference at the "
                  "original values: " + why, sub="after")
            if SIM.seq > ev0:
                info["misses"] += 1
            else:
                info["hits"] += 1
        except Exception as e:
            V("unexpected_exception", "end.mv", "%s: %s" % (type(e).__name__, str(e)[:300]))
    if outer_cm is not None:
        outer_cm.__exit__(None, None, None)
        for inv, detail in compare(true_snap, env.actor):
            V(inv, "end", "after the caller-opened substitution was left: " + detail)
    for v in viol:
        v.setdefault("op", len(sc["ops"]))
    info["N"] = SIM.seq
    info["digest"] = SIM.digest()
    info["counters"] = dict(SIM.counters)
    return {"values": values, "N": SIM.seq, "violations": viol, "info": info}


# -------------------------------------------------------------------- a run
def kind_label(sc):
    if sc["fkind"] == "plain":
        return "function"
    return AC.ALL_KINDS[sc["kind"]].__name__


def run(cs, cfg):
    import hashlib
    sc = draw_scenario(cs, cfg)
    stats = {}
    viol_out = []

    def cnt(k, n=1):
        stats[k] = stats.get(k, 0) + n

    decoded = {"scenario": {k: v for k, v in sc.items() if k != "ops"}, "kind": kind_label(sc), "ops": sc["ops"]}

    def add(v, fault):
        sig = {"inv": v["inv"], "which": sc["which"], "opname": v["opname"].split(".")[0], "sub": v.get("sub", "-"),
               "fault": "yes" if fault else "no"}
        viol_out.append({"sig": sig, "detail": "%s | %s of %s kind=%s fkind=%s target=%s xshape=%s oshape=%s | op#%s %s | "
                         "fault=%s" % (v["detail"], sc["which"], "f", kind_label(sc), sc["fkind"], sc["target"],
                                       sc["xshape"], sc["oshape"], v.get("op"), v["opname"], fault)})

    ref = execute(sc, {})
    N = ref["N"]
    decoded["N"] = N
    decoded["reference"] = ref["info"]["ops"]
    for v in ref["violations"]:
        add(v, None)
    evals = 1
    events = N
    digests = [ref["info"]["digest"]]
    inf = ref["info"]
    cnt("scenarios")
    cnt("reach.cache_hit_products", inf["hits"])
    cnt("reach.cache_miss_products", inf["misses"])
    cnt("judged_under_substitution", inf["judged_sub"])
    cnt("judged_without_substitution", inf["judged_plain"])
    cnt("discarded_ill_conditioned", inf["discarded"])
    for k, v in inf.get("counters", {}).items():
        cnt(k, v)
    for o in sc["ops"]:
        cnt("op." + o["op"])
    maxdepth = max([r["depth"] for r in inf["ops"]] + [0])
    if maxdepth >= 2:
        cnt("reach.nested_substitution_depth>=2")
    # faulted executions
    ks = []
    if N > 1 and not ref["violations"]:
        for _ in range(cfg["faulted"]):
            ks.append(1 + cs.draw(N, "k"))
    decoded["crash_points"] = sorted(set(ks))
    for k in sorted(set(ks)):
        r = execute(sc, {k: "raise"}, reference=ref["values"])
        evals += 1
        events += r["N"]
        digests.append(r["info"]["digest"])
        f = r["info"]["fired"]
        if f is None:
            cnt("fault_not_reached")
            continue
        cnt("fault.raise")
        cnt("fault.retry_after_fault")
        if f.get("depth", 0) > 0:
            cnt("reach.fault_inside_substitution")
        if f["opname"] == "construct":
            cnt("reach.fault_in_construction")
        for v in r["violations"]:
            add(v, "raise@%d in op#%s %s" % (k, f["op"], f["opname"]))
    cases = []
    if inf["judged_sub"] > 0 and inf["judged_plain"] > 0:
        cases.append("|".join(str(x) for x in (sc["which"], sc["fkind"], kind_label(sc), sc["target"], sc["xshape"],
                                                sc["oshape"], sc["skind"], ",".join(o["op"] + o.get("prod", "") for o in sc["ops"]))))
    h = hashlib.sha256("".join(digests).encode()).hexdigest()
    return {"violations": viol_out, "stats": stats, "cases": cases, "decoded": decoded, "digest": h,
            "evals": evals, "events": events}
