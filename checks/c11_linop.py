"""C11 - LinearOperator products are mutually consistent for every operator
expression, independently of the process history of class instantiations.

What is simulated.  An operator's behaviour depends on class-level capability
flags that are computed lazily at the first instantiation of a class, so it is a
function of the *process history* of first instantiations - including rejected
ones.  A "process" here is a forked child of a parent that has imported xitorch
but has never instantiated an operator (pristine class state by construction,
no private attribute is touched by the harness).

A run = one generated *program* (a class hierarchy built with type(), a body of
instantiations, expression building, product applications, capability queries
and requests that must be rejected) executed in two or three fresh processes,
each under a different *schedule*: a prelude of first instantiations in a drawn
order (parents before children, children before parents), rejected
instantiations (abstract base, class without _mv, Hermitian flag on a
non-square shape, 1-d shape), retried, and first uses of the built-in composed
classes.  The body is the same in every schedule.

Oracles.
 1. reference model: every live operator is paired with a dense batched matrix;
    every product equals the dense product, every expression the same
    expression of the operands' matrices; a request that is valid in the model
    must not raise, one that violates shape/Hermiticity must raise.
 2. history independence: the observation logs of the body (raised-or-not,
    values, capability properties, and the set of user methods invoked per
    product) are identical under every schedule.
 3. failure atomicity: a rejected request changes no later observation (follows
    from 1+2 because rejected requests are interleaved everywhere).
"""
from __future__ import annotations

import os
import pickle
import struct
import sys
import traceback
import warnings

import torch

from xsim.probe import SIM

PID = "C11"
LEVEL = "exploration"
TIERS = {
    "quick": {"runs": 4800, "batch": 8, "timeout_s": 600, "max_ops": 14, "shrink_budget": 120, "schedules": 2},
    "thorough": {"runs": 60000, "batch": 16, "timeout_s": 1800, "max_ops": 22, "shrink_budget": 250, "schedules": 3},
}
RULE = ("Program = (dtype in {float64, float32, complex128}; a hierarchy of 1-4 dynamically created operator classes "
        "[parent = LinearOperator or an earlier class; each defines a drawn subset of _mv,_rmv,_mm,_rmm,_fullmatrix,"
        "_getparamnames; classes without _mv in their MRO are abstract]; a body of <=14 (quick) operations: "
        "instantiate a class on a batched matrix [Hermitian-flagged or not; incl. a matrix-free restriction whose _mv returns a view of its input], wrap a dense matrix, build a jac operator (float64 / complex128 holomorphic), "
        "compose with .H / matmul / + / - / rsub / scalar* / *scalar / A.matmul(A.H, is_hermitian=True), apply "
        "mv/mm/rmv/rmm/fullmatrix with a broadcastable or deliberately mismatched operand [under no_grad or not], query "
        "capability properties, and requests that must be rejected); one class in eight has a _mv that autograd cannot "
        "differentiate (adjoint products over it without _rmv must be right or rejected, never wrong); a caller that "
        "passed its shape as a list edits the list afterwards; most matrices of a program share a home shape, sums and "
        "differences of three operands are built left- and right-nested with the operand kinds drawn first, and a freshly "
        "built expression is applied at once half of the time. Every program is executed in 2 (quick) or 3 fresh "
        "forked processes, each with a different prelude of first instantiations / rejected instantiations. "
        "A case is non-trivial iff the body applied >=1 product to a composed or user-class operator that the model "
        "says is valid AND the schedules differ in the order of first instantiation or contain a rejected "
        "instantiation; distinct = distinct (class-hierarchy signature, prelude signature, multiset of (expression "
        "shape, product) pairs, dtype) tuples.")
ASSUMPTIONS = [
    "user classes are internally consistent (their optional products implement the same matrix as _mv); a class may "
    "compute its _mv outside autograd, in which case a rejection of adjoint products that need the adjoint trick is accepted",
    "matrices are either exactly Hermitian or asymmetric by O(1): the allclose-based auto-detection in "
    "LinearOperator.m is never probed near its threshold",
    "all operands of one expression share one dtype; scalars for * are Python ints/floats",
    "a non-broadcastable batch shape may be rejected either when the expression is built or when a product is applied",
    "tolerances: 1e-9 relative (float64/complex128), 2e-4 (float32) on entries of O(1)",
]
REAL = ["xitorch.LinearOperator and its composed classes (xitorch/_core/linop.py), xitorch.grad.jac operators, "
        "xitorch/_utils/bcast.py from /repo working tree", "torch"]
STUB = ["user operator classes (generated with type(); every product is a recording probe)",
        "the process history (preludes of first instantiations and rejected instantiations, in forked children)",
        "the reference model (dense batched matrices)"]

DTYPES = ["float64", "float32", "complex128"]
BATCHES = [(), (2,), (1,), (2, 1), (1, 2), (3,), (2, 3), (0,)]
PRODUCTS = ["mv", "mm", "rmv", "rmm", "fullmatrix"]
OPTIONAL = ["_rmv", "_mm", "_rmm", "_fullmatrix", "_getparamnames"]


# ------------------------------------------------------------ program drawing
def bcast(*shapes):
    try:
        return tuple(torch.broadcast_shapes(*[tuple(s) for s in shapes]))
    except RuntimeError:
        return None


def draw_program(cs, cfg):
    P = {}
    P["dtype"] = DTYPES[cs.weighted([3, 1, 2], "dtype")]
    ncls = cs.randint(1, 4, "ncls")
    classes = []
    for i in range(ncls):
        parent = cs.draw(i + 1, "parent") - 1       # -1 = LinearOperator
        has_mv = parent >= 0 and classes[parent]["has_mv"]
        defines = []
        if not has_mv:
            if not cs.bool("abstract", 1, 5):
                defines.append("_mv")
        for m in OPTIONAL:
            if cs.bool("def" + m, 1, 3):
                defines.append(m)
        inherited = set(classes[parent]["all"]) if parent >= 0 else set()
        allm = sorted(inherited | set(defines))
        # a class whose own _mv is not recorded by autograd (runs under no_grad / through numpy): the adjoint trick
        # cannot work for it, so without _rmv its adjoint products must be REJECTED - never answered with wrong numbers
        nodiff = ("_mv" in defines) and cs.bool("nodiff_mv", 1, 8)
        nodiff_eff = nodiff if "_mv" in defines else (parent >= 0 and classes[parent]["nodiff_eff"])
        classes.append({"parent": parent, "defines": defines, "has_mv": "_mv" in allm, "all": allm,
                        "shape_list": cs.bool("shape_as_list", 1, 3), "nodiff": nodiff, "nodiff_eff": nodiff_eff})
    P["classes"] = classes
    inst = [i for i, c in enumerate(classes) if c["has_mv"]]
    abst = [i for i, c in enumerate(classes) if not c["has_mv"]]
    # ---- body
    pool = []    # model-side description of live operators: dict(p, q, batch, kind)
    ops = []
    nops = cs.randint(3, cfg["max_ops"], "nops")

    # most matrices of one program share a "home" shape (or its transpose), so that sums, differences and products
    # of three and more operands - expression trees of depth >= 2 with mixed leaf kinds - are common, not rare
    home = (cs.randint(1, 3, "home_p"), cs.randint(1, 3, "home_q"))

    def draw_mat(square=None, herm=False):
        b = BATCHES[cs.weighted([12, 4, 2, 2, 2, 2, 2, 1], "batch")]
        if cs.bool("homeshape", 3, 4):
            p, q = home if not cs.bool("hometransposed", 1, 6) else home[::-1]
            q = p if (square or herm) else q
        else:
            p = cs.randint(1, 3, "p")
            q = p if (square or herm) else (cs.randint(1, 3, "q") if not cs.bool("sq", 1, 2) else p)
        m = {"batch": list(b), "p": p, "q": q, "seed": cs.draw(1000, "mseed"), "herm": bool(herm),
             "scale": [1.0, 1e-9, 1e5, 0.0][cs.weighted([12, 2, 2, 1], "mscale")],
             "spike": (P["dtype"] != "float32") and cs.bool("spike", 1, 8)}
        if not herm and not square and p != q and cs.bool("restriction", 1, 5):
            # a matrix-free restriction (the first p of q coordinates): a user class answers its _mv with a VIEW of
            # the vector it was handed, not with a fresh tensor
            m.update(restrict=True, batch=[], p=min(p, q), q=max(p, q), scale=1.0, spike=False)
        return m

    npool_seen = 0
    for step in range(nops):
        # an operator that was just built is, half of the time, used at once (otherwise most expressions are never
        # applied to anything before the program ends)
        fresh_op = len(pool) - 1 if (len(pool) > npool_seen and pool and not pool[-1]["leaf"]) else None
        npool_seen = len(pool)
        if not pool:
            k = cs.weighted([5, 3, 0, 0, 0, 1], "op0")
        elif fresh_op is not None and cs.bool("apply_fresh", 1, 2):
            k = 3
        else:
            fresh_op = None
            k = cs.weighted([3, 2, 6, 8, 1, 2], "op")
        if k == 0:      # instantiate a user class
            if inst and not (abst and cs.bool("abstract_inst", 1, 8)):
                c = inst[cs.draw(len(inst), "cls")]
                bad = cs.weighted([10, 1, 1], "instbad")     # 0 valid, 1 hermitian flag on non-square, 2 1-d shape
                if bad == 0:
                    herm = cs.bool("hermflag", 1, 3)
                    m = draw_mat(herm=herm)
                    ops.append({"op": "inst", "cls": c, "mat": m, "flag": herm, "valid": True})
                    pool.append({"p": m["p"], "q": m["q"], "batch": tuple(m["batch"]), "kind": "user", "leaf": True,
                                 "jac": False, "herm": bool(herm),
                                 "taint": bool(classes[c]["nodiff_eff"] and "_rmv" not in classes[c]["all"])})
                elif bad == 1:
                    m = draw_mat()
                    m["q"] = m["p"] + 1
                    ops.append({"op": "inst", "cls": c, "mat": m, "flag": True, "valid": False})
                else:
                    ops.append({"op": "inst1d", "cls": c, "valid": False})
            elif abst:
                c = abst[cs.draw(len(abst), "acls")]
                ops.append({"op": "inst", "cls": c, "mat": draw_mat(), "flag": False, "valid": False})
            else:
                ops.append({"op": "base", "valid": False})
        elif k == 1:    # wrap a dense matrix
            arg = [None, True, False][cs.weighted([3, 1, 1], "harg")]
            herm = cs.bool("densesym", 1, 3)
            m = draw_mat(herm=herm)
            valid = not (arg is True and not herm and not (m["p"] == 1 and m["q"] == 1 and P["dtype"] != "complex128"))
            if arg is True and (0 in m["batch"] or m.get("scale") == 0.0) and m["p"] == m["q"]:
                valid = True        # an empty batch of matrices, and the zero matrix, are Hermitian
            if arg is True and m["p"] != m["q"]:
                valid = False
            if arg is False and herm:
                # telling xitorch a Hermitian matrix is not Hermitian is allowed (no check, still correct)
                pass
            ops.append({"op": "dense", "mat": m, "harg": arg, "valid": valid})
            if valid:
                pool.append({"p": m["p"], "q": m["q"], "batch": tuple(m["batch"]), "kind": "dense", "leaf": True,
                             "jac": False, "sym": bool(herm), "herm": bool(herm) and arg is not False})
        elif k == 5:    # jac operator / abstract base
            if P["dtype"] in ("float64", "complex128") and cs.bool("jac", 2, 3):
                nout = cs.randint(1, 3, "nout")
                nin = cs.randint(1, 3, "nin")
                ops.append({"op": "jac", "nout": nout, "nin": nin, "seed": cs.draw(1000, "jseed"), "valid": True})
                pool.append({"p": nout, "q": nin, "batch": (), "kind": "jac", "leaf": True, "jac": True})
            else:
                ops.append({"op": "base", "valid": False})
        elif k == 2:    # compose
            i = cs.draw(len(pool), "i")
            a = pool[i]
            e = cs.weighted([4, 4, 3, 3, 1, 2, 2, 1, 1, 1, 2, 8], "expr")
            if a["kind"] == "dense" and not a.get("sym") and a["p"] == a["q"] and a["p"] > 1 and cs.bool("herm_claim", 1, 3):
                # a dense non-Hermitian square operator times itself, claimed Hermitian: checkable, so rejected
                ops.append({"op": "matmul_hermclaim", "i": i, "j": i, "valid": False})
                continue
            if e == 11:
                # a sum/difference of THREE operands in one go, left- or right-nested: a +- (b +- c), (a +- b) +- c
                # over every mix of leaf kinds (bottom-up composition from the pool makes right-nested trees rare)
                # every operand is drawn by KIND first (dense-wrapped / user class / anything), then among the pool
                # entries of that kind, so that every mix of leaf kinds in every position is equally likely
                def pick(cands_, tag):
                    want = cs.draw(3, tag + "kind")
                    sub_ = [j_ for j_ in cands_ if pool[j_]["kind"] == ("dense", "user")[want]] if want < 2 else []
                    sub_ = sub_ or cands_
                    return sub_[cs.draw(len(sub_), tag)]
                i = pick(list(range(len(pool))), "ti")
                a = pool[i]
                cands = [j for j, b in enumerate(pool) if (b["p"], b["q"]) == (a["p"], a["q"])
                         and bcast(a["batch"], b["batch"]) is not None]
                j = pick(cands, "tj")
                k2 = pick(cands, "tk")
                bb = bcast(bcast(a["batch"], pool[j]["batch"]), pool[k2]["batch"])
                if bcast(pool[j]["batch"], pool[k2]["batch"]) is None or bb is None:
                    k2 = j
                    bb = bcast(a["batch"], pool[j]["batch"])
                ops.append({"op": "tree3", "i": i, "j": j, "k": k2, "s1": cs.draw(2, "s1"), "s2": cs.draw(2, "s2"),
                            "right": cs.bool("rightnested", 1, 2), "valid": True})
                pool.append({"p": a["p"], "q": a["q"], "batch": bb, "kind": "tree3", "leaf": False,
                             "jac": a["jac"] or pool[j]["jac"] or pool[k2]["jac"],
                             "taint": a.get("taint", False) or pool[j].get("taint", False) or pool[k2].get("taint", False)})
            elif e == 0:
                ops.append({"op": "H", "i": i, "valid": True})
                pool.append({"p": a["q"], "q": a["p"], "batch": a["batch"], "kind": "H", "leaf": False, "jac": a["jac"], "taint": a.get("taint", False)})
            elif e in (1, 2, 3, 4):
                name = {1: "matmul", 2: "add", 3: "sub", 4: "rsub"}[e]
                want_bad = cs.bool("badshape", 1, 8)
                cands = []
                for j, b in enumerate(pool):
                    if name == "matmul":
                        ok = a["q"] == b["p"]
                    else:
                        ok = (a["p"], a["q"]) == (b["p"], b["q"])
                    bb = bcast(a["batch"], b["batch"])
                    if ok and bb is None:
                        continue         # batch-only mismatch: handled by its own request kind below
                    if ok != want_bad:
                        cands.append(j)
                if not cands:
                    ops.append({"op": "H", "i": i, "valid": True})
                    pool.append({"p": a["q"], "q": a["p"], "batch": a["batch"], "kind": "H", "leaf": False,
                                 "jac": a["jac"], "taint": a.get("taint", False)})
                else:
                    j = cands[cs.draw(len(cands), "j")]
                    if name == "matmul" and not want_bad:
                        # a product of two Hermitian-flagged operators (not both dense-wrapped) is in general NOT
                        # Hermitian: its adjoint products must not take a Hermitian shortcut
                        hp = [j_ for j_, b_ in enumerate(pool) if b_.get("herm")]
                        pairs = [(i_, j_) for i_ in hp for j_ in hp if i_ != j_ and pool[i_]["p"] == pool[j_]["p"]
                                 and pool[i_]["p"] > 1 and bcast(pool[i_]["batch"], pool[j_]["batch"]) is not None
                                 and not (pool[i_]["kind"] == "dense" and pool[j_]["kind"] == "dense")]
                        if pairs and cs.bool("hermitian_pair", 1, 2):
                            i, j = pairs[cs.draw(len(pairs), "hpair")]
                            a = pool[i]
                    b = pool[j]
                    ops.append({"op": name, "i": i, "j": j, "valid": not want_bad})
                    if not want_bad:
                        pool.append({"p": a["p"], "q": b["q"], "batch": bcast(a["batch"], b["batch"]), "kind": name,
                                     "leaf": False, "jac": a["jac"] or b["jac"],
                                     "taint": a.get("taint", False) or b.get("taint", False)})
            elif e in (5, 6):
                f = [2, -1, 0.5, -1.5, 3, 0][cs.draw(6, "scalar")]
                ops.append({"op": "mul" if e == 5 else "rmul", "i": i, "f": f, "valid": True})
                pool.append({"p": a["p"], "q": a["q"], "batch": a["batch"], "kind": "mul", "leaf": False, "jac": a["jac"], "taint": a.get("taint", False)})
            elif e == 10 and a["p"] == a["q"]:
                # one operator object combined with its own adjoint: A + A.H, A - A.H, A.H - A
                ops.append({"op": "selfcomb", "i": i, "how": cs.draw(3, "selfcomb"), "valid": True})
                pool.append({"p": a["p"], "q": a["p"], "batch": a["batch"], "kind": "selfcomb", "leaf": False, "jac": a["jac"], "taint": a.get("taint", False)})
            elif e == 10:
                ops.append({"op": "H", "i": i, "valid": True})
                pool.append({"p": a["q"], "q": a["p"], "batch": a["batch"], "kind": "H", "leaf": False, "jac": a["jac"], "taint": a.get("taint", False)})
            elif e == 7:
                ops.append({"op": "aah", "i": i, "valid": True})
                pool.append({"p": a["p"], "q": a["p"], "batch": a["batch"], "kind": "aah", "leaf": False, "jac": a["jac"], "taint": a.get("taint", False)})
            elif e == 8:
                dense_sq = [j for j, b in enumerate(pool) if b["kind"] == "dense" and a["kind"] == "dense" and
                            a["q"] == b["p"] and a["p"] == b["q"] and a["p"] > 1 and bcast(a["batch"], b["batch"]) is not None
                            and not b.get("sym") and not a.get("sym")]
                if dense_sq and cs.bool("herm_claim", 1, 2):
                    # two dense operators whose (non-Hermitian) product is claimed to be Hermitian: checkable, so rejected
                    ops.append({"op": "matmul_hermclaim", "i": i, "j": dense_sq[cs.draw(len(dense_sq), "hj")],
                                "valid": False})
                else:
                    ops.append({"op": "badmul", "i": i, "what": cs.choice(["complex", "tensor", "str"], "badscalar"),
                                "valid": False})
            else:
                ops.append({"op": "addnum", "i": i, "valid": False})
        elif k == 3:    # apply a product
            # prefer recently built operators
            if fresh_op is not None:
                i = fresh_op
            else:
                i = len(pool) - 1 - cs.draw(min(len(pool), 4), "ai") if cs.bool("recent", 2, 3) else cs.draw(len(pool), "ai")
            a = pool[i]
            prod = PRODUCTS[cs.weighted([3, 3, 3, 3, 2], "prod")]
            rec = {"op": "apply", "i": i, "prod": prod, "nograd": cs.bool("nograd", 1, 3), "seed": cs.draw(1000, "xseed"),
                   "may_raise": bool(a.get("taint", False))}
            if prod != "fullmatrix":
                inner = a["q"] if prod in ("mv", "mm") else a["p"]
                bad = cs.weighted([10, 1, 1], "xbad")       # 0 valid, 1 wrong inner dimension, 2 batch mismatch
                xb = BATCHES[cs.weighted([10, 4, 2, 2, 2, 2, 2, 1], "xbatch")]
                if cs.bool("extra_lead", 1, 6):
                    xb = (2,) + tuple(xb) if len(xb) < 2 else xb
                if bad == 1:
                    # a wrong inner dimension; size 1 is the treacherous one (it would broadcast silently)
                    inner = 1 if (inner > 1 and cs.bool("inner1", 1, 2)) else inner + 1
                if bad == 2:
                    # force a non-broadcastable batch: needs an operator batch dimension > 1
                    big = [d for d in a["batch"] if d > 1]
                    if big:
                        xb = tuple(list(a["batch"][:-1]) + [a["batch"][-1] + 1]) if a["batch"][-1] > 1 else \
                            tuple([a["batch"][0] + 1] + list(a["batch"][1:]))
                    else:
                        bad = 0
                rec["xbatch"] = list(xb)
                rec["inner"] = inner
                rec["r"] = cs.randint(1, 3, "r") if prod in ("mm", "rmm") else None
                okb = bcast(a["batch"], xb) is not None
                rec["valid"] = bad != 1 and okb
            else:
                rec["valid"] = True
            ops.append(rec)
        elif k == 4:
            ops.append({"op": "query", "i": cs.draw(len(pool), "qi"), "valid": True})
    P["ops"] = ops
    P["npool"] = len(pool)
    P["pool_kinds"] = [p["kind"] for p in pool]
    return P


def draw_prelude(cs, P, which):
    """schedule = prelude of first instantiations / rejected instantiations"""
    classes = P["classes"]
    inst = [i for i, c in enumerate(classes) if c["has_mv"]]
    abst = [i for i, c in enumerate(classes) if not c["has_mv"]]
    pre = []
    if which == 0:
        return pre
    if which == 2 and cs.bool("revorder", 1, 2):
        # children before parents, then one rejected request of every kind
        for c in reversed(inst):
            pre.append({"a": "inst", "cls": c})
        return pre
    n = cs.randint(1, 6, "npre")
    for _ in range(n):
        a = cs.weighted([6, 2, 2, 2, 1, 2, 1], "pre")
        if a == 0 and inst:
            pre.append({"a": "inst", "cls": inst[cs.draw(len(inst), "pcls")], "flag": cs.bool("pflag", 1, 3)})
        elif a == 1:
            pre.append({"a": "base", "times": cs.randint(1, 2, "times")})
        elif a == 2 and abst:
            pre.append({"a": "abstract", "cls": abst[cs.draw(len(abst), "pacls")], "times": cs.randint(1, 3, "times")})
        elif a == 3 and inst:
            pre.append({"a": "hermnonsq", "cls": inst[cs.draw(len(inst), "pcls")]})
        elif a == 4 and inst:
            pre.append({"a": "inst1d", "cls": inst[cs.draw(len(inst), "pcls")]})
        elif a == 5:
            pre.append({"a": "builtin", "what": cs.choice(["dense", "jacexpr", "denseH"], "bw")})
        else:
            pre.append({"a": "base", "times": 1})
    return pre


# --------------------------------------------------------- in-process execution
CALLS = []


def _rec(self, name):
    CALLS.append((type(self).__name__, name))
    SIM.seq += 1


def _u_init(self, mat, is_hermitian=False):
    from xitorch import LinearOperator
    shape = list(mat.shape) if getattr(type(self), "_shape_as_list", False) else mat.shape
    LinearOperator.__init__(self, shape=shape, is_hermitian=is_hermitian, dtype=mat.dtype, device=mat.device)
    self.mat = mat
    self._restriction = bool(mat.dim() == 2 and mat.shape[0] <= mat.shape[1] and mat.shape[1] > 1 and
                             torch.equal(mat, torch.eye(mat.shape[0], mat.shape[1], dtype=mat.dtype)))
    if isinstance(shape, list):
        # the list is the caller's: it goes on using it (for the next, larger operator); this operator must not follow
        shape[-2] += 2
        shape[-1] += 3
        SIM.count("reach.caller_edits_its_shape_list")


def _u_mv(self, x):
    _rec(self, "_mv")
    if getattr(self, "_restriction", False):
        SIM.count("reach.user_mv_returns_a_view_of_its_input")
        return x[..., :self.mat.shape[0]]
    if self.mat.numel() > 0 and not bool(self.mat.any()):
        # a zero operator that does not even look at its input (no autograd dependence on x)
        shape = torch.broadcast_shapes(self.mat.shape[:-2], x.shape[:-1]) + (self.mat.shape[-2],)
        return x.new_zeros(shape)
    return torch.matmul(self.mat, x.unsqueeze(-1)).squeeze(-1)


def _u_mv_nodiff(self, x):
    with torch.no_grad():
        return _u_mv(self, x)


def _u_rmv(self, x):
    _rec(self, "_rmv")
    return torch.matmul(self.mat.transpose(-2, -1).conj(), x.unsqueeze(-1)).squeeze(-1)


def _u_mm(self, x):
    _rec(self, "_mm")
    return torch.matmul(self.mat, x)


def _u_rmm(self, x):
    _rec(self, "_rmm")
    return torch.matmul(self.mat.transpose(-2, -1).conj(), x)


def _u_fullmatrix(self):
    _rec(self, "_fullmatrix")
    return self.mat


def _u_gpn(self, prefix=""):
    return [prefix + "mat"]


UMETHODS = {"_mv": _u_mv, "_rmv": _u_rmv, "_mm": _u_mm, "_rmm": _u_rmm, "_fullmatrix": _u_fullmatrix,
            "_getparamnames": _u_gpn}


def build_classes(P):
    from xitorch import LinearOperator
    out = []
    for i, c in enumerate(P["classes"]):
        parent = LinearOperator if c["parent"] < 0 else out[c["parent"]]
        ns = {m: UMETHODS[m] for m in c["defines"]}
        if c.get("nodiff"):
            ns["_mv"] = _u_mv_nodiff
        if c["parent"] < 0:
            ns["__init__"] = _u_init
        ns["_shape_as_list"] = bool(c.get("shape_list"))
        out.append(type("U%d" % i, (parent,), ns))
    return out


def tdtype(name):
    return getattr(torch, name)


def gen_matrix(m, dtype):
    g = torch.Generator()
    g.manual_seed(1000 + m["seed"])
    shape = tuple(m["batch"]) + (m["p"], m["q"])
    dt = tdtype(dtype)
    if m.get("restrict"):
        return torch.eye(m["p"], m["q"], dtype=dt)
    if dt.is_complex:
        x = torch.randn(shape, generator=g, dtype=torch.float64) + 1j * torch.randn(shape, generator=g, dtype=torch.float64)
        x = x.to(dt)
    else:
        x = torch.randn(shape, generator=g, dtype=torch.float64).to(dt)
    if m.get("herm"):
        x = x + x.transpose(-2, -1).conj()
    else:
        # asymmetric by O(1) wherever the shape allows it
        if m["p"] == m["q"] and m["p"] > 1:
            x = x + torch.triu(torch.ones(m["p"], m["q"], dtype=dt), diagonal=1) * 3
        elif m["p"] == m["q"] == 1 and dt.is_complex:
            x = x + 2j
    x = x * m.get("scale", 1.0)
    if m.get("spike") and m["p"] == m["q"] and m["p"] > 1:
        # one entry many orders of magnitude above the rest (Hermitian matrices stay Hermitian)
        x = x.clone()
        x[..., 0, 0] = x[..., 0, 0] + 1e9 * max(m.get("scale", 1.0), 1e-300)
    return x


def gen_operand(shape, seed, dtype):
    g = torch.Generator()
    g.manual_seed(5000 + seed)
    dt = tdtype(dtype)
    if dt.is_complex:
        return (torch.randn(shape, generator=g, dtype=torch.float64) +
                1j * torch.randn(shape, generator=g, dtype=torch.float64)).to(dt)
    return torch.randn(shape, generator=g, dtype=torch.float64).to(dt)


def jac_fn(nout, nin, seed):
    g = torch.Generator()
    g.manual_seed(9000 + seed)
    W = 0.7 * torch.randn(nout, nin, generator=g, dtype=torch.float64)
    c = torch.randn(nout, generator=g, dtype=torch.float64)
    x0 = 0.5 * torch.randn(nin, generator=g, dtype=torch.float64)

    def fn(x, a):
        return torch.tanh(W @ x) * a + c * (x * x).sum()
    return fn, x0


def make_jac_complex(nout, nin, seed):
    """jac operator of a holomorphic polynomial map C^nin -> C^nout; the dense model is the analytic complex
    Jacobian d f_i / d z_j (no autograd convention enters the reference)"""
    from xitorch.grad import jac
    g = torch.Generator()
    g.manual_seed(9100 + seed)

    def crand(*shape):
        return (torch.randn(*shape, generator=g, dtype=torch.float64) +
                1j * torch.randn(*shape, generator=g, dtype=torch.float64)).to(torch.complex128)
    W = 0.7 * crand(nout, nin)
    c = crand(nout)
    x0 = 0.5 * crand(nin)

    def fn(x, a):
        return (W @ (x * x)) * a + c * x.sum()
    x = x0.clone().requires_grad_()
    a = torch.tensor(1.3 - 0.4j, dtype=torch.complex128).requires_grad_()
    op = jac(fn, params=(x, a), idxs=0)
    dense = 2.0 * a.detach() * W * x0.unsqueeze(0) + c.unsqueeze(-1) * torch.ones(1, nin, dtype=torch.complex128)
    return op, dense.detach(), (fn, x, a)


def make_jac(nout, nin, seed, dtype="float64"):
    from xitorch.grad import jac
    if dtype == "complex128":
        return make_jac_complex(nout, nin, seed)
    fn, x0 = jac_fn(nout, nin, seed)
    x = x0.clone().requires_grad_()
    a = torch.tensor(1.3, dtype=torch.float64).requires_grad_()
    op = jac(fn, params=(x, a), idxs=0)
    dense = torch.autograd.functional.jacobian(lambda xx: fn(xx, a.detach()), x.detach())
    return op, dense.detach(), (fn, x, a)


def run_prelude(pre, classes, dtype):
    from xitorch import LinearOperator
    log = []
    keep = []
    for a in pre:
        try:
            if a["a"] == "inst":
                m = {"batch": [], "p": 2, "q": 2, "seed": 7, "herm": bool(a.get("flag"))}
                keep.append(classes[a["cls"]](gen_matrix(m, "float64"), is_hermitian=bool(a.get("flag"))))
                log.append("inst:ok")
            elif a["a"] == "base":
                for _ in range(a["times"]):
                    try:
                        LinearOperator(shape=(2, 2))
                        log.append("base:ACCEPTED")
                    except Exception as e:
                        log.append("base:" + type(e).__name__)
            elif a["a"] == "abstract":
                for _ in range(a["times"]):
                    try:
                        classes[a["cls"]](torch.eye(2, dtype=torch.float64))
                        log.append("abstract:ACCEPTED")
                    except Exception as e:
                        log.append("abstract:" + type(e).__name__)
            elif a["a"] == "hermnonsq":
                try:
                    classes[a["cls"]](torch.ones(2, 3, dtype=torch.float64), is_hermitian=True)
                    log.append("hermnonsq:ACCEPTED")
                except Exception as e:
                    log.append("hermnonsq:" + type(e).__name__)
            elif a["a"] == "inst1d":
                try:
                    classes[a["cls"]](torch.ones(3, dtype=torch.float64))
                    log.append("inst1d:ACCEPTED")
                except Exception as e:
                    log.append("inst1d:" + type(e).__name__)
            elif a["a"] == "builtin":
                if a["what"] == "dense":
                    keep.append(LinearOperator.m(torch.eye(2, dtype=torch.float64) * 2))
                elif a["what"] == "denseH":
                    keep.append(LinearOperator.m(torch.tensor([[1.0, 2.0], [0.0, 1.0]], dtype=torch.float64)).H)
                else:
                    J, _, k = make_jac(2, 2, 1)
                    keep.append(k)
                    keep.append((J.H, J + J, 2 * J, J.matmul(J.H), J - J))
                log.append("builtin:ok")
        except Exception as e:      # a prelude step that should have worked
            log.append("%s:UNEXPECTED %s: %s" % (a["a"], type(e).__name__, str(e)[:100]))
    return log


def rtol_of(dtype):
    return 2e-4 if dtype == "float32" else 1e-9


def close(res, ref, dtype, scale=None, bound=None):
    if tuple(res.shape) != tuple(ref.shape):
        return False, "shape %s, model %s" % (tuple(res.shape), tuple(ref.shape))
    rt = rtol_of(dtype)
    if bound is not None:
        # entry-wise: |error_i| <= rtol * (|A| |x|)_i, the natural round-off bound of a product
        if res.dtype != ref.dtype:
            return False, "dtype %s, model %s" % (res.dtype, ref.dtype)
        if res.numel() == 0:
            return True, ""
        err = (res - ref).abs()
        lim = rt * bound.to(err.dtype).expand_as(err) * 8 + 1e-300
        if not bool(torch.all(err <= lim)):
            k = int(torch.argmax(err - lim))
            return False, "values differ: abs err %.3e where the round-off bound is %.3e" % (
                float(err.reshape(-1)[k]), float(lim.reshape(-1)[k]))
        return True, ""
    if scale is None:
        scale = max(1.0, float(ref.abs().max()) if ref.numel() else 1.0)
    if res.dtype != ref.dtype:
        return False, "dtype %s, model %s" % (res.dtype, ref.dtype)
    if not torch.allclose(res, ref, rtol=rt, atol=rt * scale):
        return False, "values differ: max abs err %.3e (scale %.2e)" % (float((res - ref).abs().max()), scale)
    return True, ""


def execute(P, pre):
    """runs inside a pristine forked process: prelude, then body.
    Returns {"prelude": log, "obs": [...], "viol": [...]}"""
    from xitorch import LinearOperator
    del CALLS[:]
    SIM.reset()
    dtype = P["dtype"]
    classes = build_classes(P)
    viol = []
    obs = []
    with warnings.catch_warnings():
        warnings.simplefilter("ignore")
        prelog = run_prelude(pre, classes, dtype)
        for s in prelog:
            if "ACCEPTED" in s or "UNEXPECTED" in s:
                viol.append({"inv": "prelude_" + s.split(":")[0], "op": "prelude", "detail": "prelude step: %s" % s})
        pool = []     # (operator, dense model matrix, description)
        absp = []     # entry-wise magnitude bound of every model matrix (|A|+|B| for sums, |A||B| for products):
        #               the scale against which a product's error is judged, also after cancellation
        keep = []
        for step, op in enumerate(P["ops"]):
            o = {"op": op["op"], "status": None, "value": None, "props": None, "invoked": None}
            k = op["op"]
            del CALLS[:]
            model = None
            absmodel = None
            desc = None
            res = None
            err = None
            operand_modified = False
            try:
                if k == "inst":
                    mat = gen_matrix(op["mat"], dtype)
                    model, desc = mat, "U%d" % op["cls"]
                    absmodel = mat.abs()
                    res = classes[op["cls"]](mat, is_hermitian=op["flag"])
                elif k == "inst1d":
                    res = classes[op["cls"]](torch.ones(3, dtype=tdtype(dtype)))
                elif k == "base":
                    res = LinearOperator(shape=(2, 2))
                elif k == "dense":
                    mat = gen_matrix(op["mat"], dtype)
                    model, desc = mat, "M"
                    absmodel = mat.abs()
                    res = LinearOperator.m(mat, is_hermitian=op["harg"])
                elif k == "jac":
                    res, model, kk = make_jac(op["nout"], op["nin"], op["seed"], dtype)
                    keep.append(kk)
                    desc = "J"
                    absmodel = model.abs()
                elif k == "H":
                    A, MA, dA = pool[op["i"]]
                    model, desc = MA.transpose(-2, -1).conj(), "(%s).H" % dA
                    absmodel = absp[op["i"]].transpose(-2, -1)
                    res = A.H
                elif k in ("matmul", "add", "sub", "rsub"):
                    A, MA, dA = pool[op["i"]]
                    B, MB, dB = pool[op["j"]]
                    if op["valid"]:
                        absmodel = torch.matmul(absp[op["i"]], absp[op["j"]]) if k == "matmul" else \
                            absp[op["i"]] + absp[op["j"]]
                        if k == "matmul":
                            model, desc = torch.matmul(MA, MB), "(%s)@(%s)" % (dA, dB)
                        elif k == "add":
                            model, desc = MA + MB, "(%s)+(%s)" % (dA, dB)
                        elif k == "sub":
                            model, desc = MA - MB, "(%s)-(%s)" % (dA, dB)
                        else:
                            model, desc = MB - MA, "(%s)-(%s)" % (dB, dA)
                    if k == "matmul":
                        res = A.matmul(B)
                    elif k == "add":
                        res = A + B
                    elif k == "sub":
                        res = A - B
                    else:
                        res = A.__rsub__(B)
                elif k == "tree3":
                    A, MA, dA = pool[op["i"]]
                    B, MB, dB = pool[op["j"]]
                    C3, MC, dC = pool[op["k"]]
                    g1 = 1 if op["s1"] == 0 else -1
                    g2 = 1 if op["s2"] == 0 else -1
                    absmodel = absp[op["i"]] + absp[op["j"]] + absp[op["k"]]
                    c1, c2 = "+-"[op["s1"]], "+-"[op["s2"]]
                    if op["right"]:
                        model, desc = MA + g1 * (MB + g2 * MC), "(%s)%s((%s)%s(%s))" % (dA, c1, dB, c2, dC)
                        inner = (B + C3) if g2 == 1 else (B - C3)
                        res = (A + inner) if g1 == 1 else (A - inner)
                    else:
                        model, desc = (MA + g1 * MB) + g2 * MC, "((%s)%s(%s))%s(%s)" % (dA, c1, dB, c2, dC)
                        inner = (A + B) if g1 == 1 else (A - B)
                        res = (inner + C3) if g2 == 1 else (inner - C3)
                elif k in ("mul", "rmul"):
                    A, MA, dA = pool[op["i"]]
                    model, desc = MA * op["f"], "%s*(%s)" % (op["f"], dA)
                    absmodel = absp[op["i"]] * abs(op["f"])
                    res = (A * op["f"]) if k == "mul" else (op["f"] * A)
                elif k == "selfcomb":
                    A, MA, dA = pool[op["i"]]
                    MAH = MA.transpose(-2, -1).conj()
                    absmodel = absp[op["i"]] + absp[op["i"]].transpose(-2, -1)
                    if op["how"] == 0:
                        model, desc, res = MA + MAH, "(%s)+(%s).H" % (dA, dA), A + A.H
                    elif op["how"] == 1:
                        model, desc, res = MA - MAH, "(%s)-(%s).H" % (dA, dA), A - A.H
                    else:
                        model, desc, res = MAH - MA, "(%s).H-(%s)" % (dA, dA), A.H - A
                elif k == "aah":
                    A, MA, dA = pool[op["i"]]
                    model, desc = torch.matmul(MA, MA.transpose(-2, -1).conj()), "(%s)@(%s).H[herm]" % (dA, dA)
                    absmodel = torch.matmul(absp[op["i"]], absp[op["i"]].transpose(-2, -1))
                    res = A.matmul(A.H, is_hermitian=True)
                elif k == "matmul_hermclaim":
                    A, MA, dA = pool[op["i"]]
                    B, MB, dB = pool[op["j"]]
                    prod = torch.matmul(MA, MB)
                    if prod.numel() == 0:
                        asym = 0.0
                    else:
                        # asymmetry of every entry relative to the magnitude of its own row and column
                        ap = prod.abs().double()
                        sv = torch.maximum(ap.amax(dim=-1), ap.amax(dim=-2))
                        den = torch.sqrt(sv.unsqueeze(-1) * sv.unsqueeze(-2)) + 1e-300
                        asym = float(((prod - prod.transpose(-2, -1).conj()).abs().double() / den).max())
                    if asym <= 1e-12:
                        op = dict(op, valid=True)      # the product happens to be Hermitian: nothing to reject
                        model, desc = prod, "(%s)@(%s)[herm]" % (dA, dB)
                    elif asym < 1e-2:
                        op = dict(op, valid=None)      # near-Hermitian band: no single right answer, not judged
                    res = A.matmul(B, is_hermitian=True)
                elif k == "badmul":
                    A, MA, dA = pool[op["i"]]
                    f = {"complex": 1 + 2j, "tensor": torch.tensor(2.0), "str": "2"}[op["what"]]
                    res = A * f
                elif k == "addnum":
                    A, MA, dA = pool[op["i"]]
                    res = A + 3
                elif k == "apply":
                    A, MA, dA = pool[op["i"]]
                    desc = dA
                    prod = op["prod"]
                    o["prod"] = prod
                    MH = MA.transpose(-2, -1).conj()
                    if prod == "fullmatrix":
                        model = MA
                        x = None
                    else:
                        shape = tuple(op["xbatch"]) + (op["inner"],) + ((op["r"],) if op["r"] else ())
                        x = gen_operand(shape, op["seed"], dtype)
                        if op["valid"]:
                            M = MA if prod in ("mv", "mm") else MH
                            model = torch.matmul(M, x.unsqueeze(-1)).squeeze(-1) if prod in ("mv", "rmv") \
                                else torch.matmul(M, x)
                    x_before = None if x is None else x.clone()
                    if op["nograd"]:
                        with torch.no_grad():
                            res = getattr(A, prod)(*([] if x is None else [x]))
                    else:
                        res = getattr(A, prod)(*([] if x is None else [x]))
                    if x is not None and not torch.equal(x, x_before):
                        operand_modified = True
                elif k == "query":
                    A, MA, dA = pool[op["i"]]
                    desc = dA
                    res = {"mv": A.is_mv_implemented, "mm": A.is_mm_implemented, "rmv": A.is_rmv_implemented,
                           "rmm": A.is_rmm_implemented, "fullmatrix": A.is_fullmatrix_implemented,
                           "gpn": A.is_getparamnames_implemented, "herm": bool(A.is_hermitian),
                           "shape": tuple(int(s) for s in A.shape), "dtype": str(A.dtype)}
            except Exception as e:
                err = e
            o["invoked"] = tuple(sorted(set(m for _, m in CALLS)))
            o["status"] = "ok" if err is None else "raised"
            o["exc"] = type(err).__name__ if err is not None else None
            o["desc"] = desc

            def V(inv, detail):
                viol.append({"inv": inv, "op": k if k != "apply" else "apply." + op["prod"], "step": step,
                             "detail": "step %d %s on %s: %s" % (step, k if k != "apply" else op["prod"], desc, detail)})

            if op["valid"] is None:
                pass
            elif op["valid"]:
                if err is not None and k == "apply" and op.get("may_raise") and isinstance(err, RuntimeError):
                    # an operator built on a product that autograd cannot differentiate, without _rmv: a rejection
                    # is the right answer wherever the adjoint of that leaf is needed (a wrong value never is)
                    SIM.count("reach.adjoint_of_nondifferentiable_mv_rejected")
                elif err is not None:
                    V("valid_rejected", "raised %s: %s" % (type(err).__name__, str(err)[:300]))
                    if k not in ("apply", "query"):
                        # keep pool indices aligned: the body cannot continue meaningfully
                        obs.append(o)
                        break
                elif k == "apply":
                    if operand_modified:
                        V("operand_modified", "the product wrote into the caller's vector/matrix")
                    if not isinstance(res, torch.Tensor):
                        V("not_a_tensor", "returned %s" % type(res).__name__)
                    else:
                        aM = absp[op["i"]]
                        if op["prod"] in ("rmv", "rmm"):
                            aM = aM.transpose(-2, -1)
                        if x is None:
                            bound = aM
                        else:
                            xa = x.abs()
                            bound = torch.matmul(aM.to(xa.dtype), xa.unsqueeze(-1)).squeeze(-1) if op["prod"] in ("mv", "rmv") \
                                else torch.matmul(aM.to(xa.dtype), xa)
                        bound = bound.real if bound.is_complex() else bound
                        ok, why = close(res.detach(), model, dtype, bound=bound)
                        o["value"] = res.detach().resolve_conj().cpu().numpy()
                        if not ok:
                            V("product_value", why)
                elif k == "query":
                    o["props"] = res
                    # capability properties of a user-class leaf follow the methods the class defines
                    A = pool[op["i"]][0]
                    cname = type(A).__name__
                    if cname.startswith("U") and cname[1:].isdigit():
                        c = P["classes"][int(cname[1:])]
                        for key, meth in (("mm", "_mm"), ("rmv", "_rmv"), ("rmm", "_rmm"), ("fullmatrix", "_fullmatrix"),
                                          ("gpn", "_getparamnames")):
                            if res[key] != (meth in c["all"]):
                                V("capability_flag", "is_%s_implemented=%s but the class %s %s" %
                                  (key, res[key], cname, "defines it" if meth in c["all"] else "does not define it"))
                    if tuple(res["shape"]) != tuple(pool[op["i"]][1].shape):
                        V("shape_property", "shape %s, model %s" % (res["shape"], tuple(pool[op["i"]][1].shape)))
                else:
                    if not isinstance(res, LinearOperator):
                        V("not_an_operator", "returned %s" % type(res).__name__)
                        obs.append(o)
                        break
                    if tuple(int(s) for s in res.shape) != tuple(model.shape):
                        V("shape_property", "operator shape %s, model %s" % (tuple(res.shape), tuple(model.shape)))
                    if k != "matmul_hermclaim":     # (the generator did not reserve a pool slot for it)
                        pool.append((res, model, desc))
                        absp.append(absmodel if absmodel is not None else model.abs())
            else:
                if err is None:
                    if k in ("matmul", "add", "sub", "rsub") and isinstance(res, LinearOperator):
                        # a batch mismatch may also be rejected at product time: not generated as such,
                        # so an accepted shape violation is a violation
                        V("invalid_accepted", "shape-mismatched operands were accepted")
                    else:
                        V("invalid_accepted", "a request that violates shape/Hermiticity/abstractness was accepted%s" %
                          ("" if not isinstance(res, torch.Tensor) else " and returned a tensor of shape %s" %
                           (tuple(res.shape),)))
            obs.append(o)
    return {"prelude": prelog, "obs": obs, "viol": viol, "events": SIM.seq, "counters": dict(SIM.counters)}


# ----------------------------------------------------------- forked execution
def in_fresh_process(P, pre):
    r, w = os.pipe()
    pid = os.fork()
    if pid == 0:
        try:
            os.close(r)
            try:
                out = execute(P, pre)
            except BaseException:
                out = {"harness_error": traceback.format_exc()}
            blob = pickle.dumps(out, protocol=4)
            with os.fdopen(w, "wb") as f:
                f.write(struct.pack("<Q", len(blob)))
                f.write(blob)
        finally:
            os._exit(0)
    os.close(w)
    with os.fdopen(r, "rb") as f:
        data = f.read()
    os.waitpid(pid, 0)
    if len(data) < 8:
        raise RuntimeError("child process died without a result")
    (n,) = struct.unpack("<Q", data[:8])
    out = pickle.loads(data[8:8 + n])
    if "harness_error" in out:
        raise RuntimeError("harness error in child:\n" + out["harness_error"])
    return out


def prelude_sig(pre):
    return ",".join("%s%s" % (a["a"], a.get("cls", a.get("what", ""))) + ("x%d" % a["times"] if a.get("times", 1) > 1 else "")
                    for a in pre) or "-"


def run(cs, cfg):
    import numpy as np
    import hashlib
    P = draw_program(cs, cfg)
    nsched = cfg["schedules"]
    pres = [draw_prelude(cs, P, w) for w in range(nsched)]
    stats = {}
    viol = []

    def cnt(k, n=1):
        stats[k] = stats.get(k, 0) + n

    decoded = {"dtype": P["dtype"],
               "classes": ["U%d(%s): %s" % (i, "LinearOperator" if c["parent"] < 0 else "U%d" % c["parent"],
                                            ",".join(c["defines"]) or "-") for i, c in enumerate(P["classes"])],
               "ops": P["ops"], "schedules": [prelude_sig(p) for p in pres]}
    outs = [in_fresh_process(P, pre) for pre in pres]
    events = sum(o["events"] for o in outs)
    h = hashlib.sha256()
    for si, out in enumerate(outs):
        for v in out["viol"]:
            viol.append({"sig": {"inv": v["inv"], "op": v["op"], "dtype": P["dtype"]},
                         "detail": "%s | schedule %d prelude=[%s] classes=%s" %
                                   (v["detail"], si, prelude_sig(pres[si]), decoded["classes"])})
        for o in out["obs"]:
            h.update(repr((o["op"], o["status"], o["exc"], o["props"], o["invoked"],
                           None if o["value"] is None else o["value"].shape)).encode())
        h.update(repr(out["prelude"]).encode())
    # ---- history independence
    base = outs[0]["obs"]
    for si in range(1, len(outs)):
        other = outs[si]["obs"]
        if len(other) != len(base):
            viol.append({"sig": {"inv": "history_dependence", "what": "length", "dtype": P["dtype"]},
                         "detail": "the body stopped at step %d under schedule 0 and at step %d under schedule %d "
                                   "(prelude=[%s])" % (len(base), len(other), si, prelude_sig(pres[si]))})
        for step, (a, b) in enumerate(zip(base, other)):
            what = None
            if a["status"] != b["status"]:
                what = ("status", "%s(%s) vs %s(%s)" % (a["status"], a["exc"], b["status"], b["exc"]))
            elif a["props"] != b["props"]:
                diff = {k: (a["props"][k], b["props"][k]) for k in a["props"] if a["props"][k] != b["props"][k]}
                what = ("capability", "properties differ: %s" % diff)
            elif a["invoked"] != b["invoked"]:
                what = ("invoked", "user methods invoked: %s vs %s" % (a["invoked"], b["invoked"]))
            elif (a["value"] is None) != (b["value"] is None):
                what = ("value", "one schedule returned a value, the other did not")
            elif a["value"] is not None:
                rt = rtol_of(P["dtype"])
                if a["value"].shape != b["value"].shape or not np.allclose(
                        a["value"], b["value"], rtol=rt, atol=rt * max(1.0, float(np.abs(a["value"]).max()) if a["value"].size else 1.0)):
                    what = ("value", "values differ between schedules")
            if what is not None:
                viol.append({"sig": {"inv": "history_dependence", "what": what[0], "dtype": P["dtype"]},
                             "detail": "step %d (%s%s on %s): %s | schedule 0 prelude=[%s] vs schedule %d prelude=[%s] | "
                                       "classes=%s" % (step, a["op"], "." + a.get("prod", "") if a.get("prod") else "",
                                                       a.get("desc"), what[1], prelude_sig(pres[0]), si,
                                                       prelude_sig(pres[si]), decoded["classes"])})
                break
    # ---- statistics / reach
    body = outs[0]["obs"]
    cnt("ops", len(body))
    for k_, v_ in outs[0].get("counters", {}).items():
        cnt(k_, v_)
    napply_valid = 0
    sig_pairs = []
    for o, op in zip(body, P["ops"]):
        cnt("op." + op["op"])
        if not op["valid"]:
            cnt("fault.invalid_op")
            if o["status"] == "raised":
                cnt("reach.invalid_rejected")
        if op["op"] == "apply" and op["valid"] and o["status"] == "ok":
            kind = P["pool_kinds"][op["i"]] if op["i"] < len(P["pool_kinds"]) else "?"
            if kind != "dense":
                napply_valid += 1
            sig_pairs.append("%s.%s" % (kind, op["prod"]))
            cnt("apply." + op["prod"])
            if op["nograd"]:
                cnt("reach.apply_under_no_grad")
            if op.get("xbatch"):
                cnt("reach.batched_operand")
    for pre in pres:
        for a in pre:
            if a["a"] in ("base", "abstract", "hermnonsq", "inst1d"):
                cnt("fault.rejected_instantiation_in_prelude", a.get("times", 1))
                if a.get("times", 1) > 1:
                    cnt("fault.retry_after_rejection")
    # parent-before-child / child-before-parent in some prelude
    for pre in pres:
        seen = []
        for a in pre:
            if a["a"] in ("inst", "hermnonsq", "inst1d"):
                c = a["cls"]
                par = P["classes"][c]["parent"]
                chain = []
                while par >= 0:
                    chain.append(par)
                    par = P["classes"][par]["parent"]
                if any(x in seen for x in chain):
                    cnt("reach.parent_first_instantiated_before_child")
                desc_of = [i for i, cc in enumerate(P["classes"]) if _is_ancestor(P, c, i)]
                if any(x in seen for x in desc_of):
                    cnt("reach.child_first_instantiated_before_parent")
                seen.append(c)
    differs = any(p for p in pres[1:])
    cases = []
    if napply_valid and differs:
        hier = ";".join("%d:%s" % (c["parent"], "".join(m[1:3] for m in c["defines"])) for c in P["classes"])
        cases.append("%s|%s|%s|%s" % (hier, "/".join(prelude_sig(p) for p in pres), ",".join(sorted(sig_pairs)), P["dtype"]))
    decoded["observations"] = [{"op": o["op"], "prod": o.get("prod"), "on": o.get("desc"), "status": o["status"],
                                "exc": o["exc"], "invoked": list(o["invoked"] or [])} for o in body]
    SIM.reset()
    return {"violations": viol, "stats": stats, "cases": cases, "decoded": decoded, "digest": h.hexdigest(),
            "evals": len(outs), "events": events}


def _is_ancestor(P, anc, cls):
    par = P["classes"][cls]["parent"]
    while par >= 0:
        if par == anc:
            return True
        par = P["classes"][par]["parent"]
    return False
