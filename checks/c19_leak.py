"""C19 - calls do not keep tensors alive after their results are dropped.

The property removes one scheduler from the world ("without relying on the
cyclic garbage collector").  The simulator pins that scheduler: the cyclic GC is
disabled for the whole history; a collection happens only at the very end and
is itself an observation (what it frees is reported as cyclic garbage).

A run = one history: a functional + method + function kind + usage, issued in
cycles of 1-3 calls whose results are held in a pool and released in a drawn
order (so lifetimes overlap); whenever the pool is empty the census of live
torch.Tensor objects is taken.  Conservation invariant: the census must not
grow on each of three consecutive cycles after one warm-up cycle.
"""
from __future__ import annotations

import gc
import warnings

import torch

from xsim.probe import SIM
from xsim import actors as AC
from checks import c10_restore as C10

PID = "C19"
LEVEL = "exploration"
TIERS = {
    "quick": {"runs": 800, "batch": 1, "timeout_s": 600, "cycles": 5, "shrink_budget": 40},
    "thorough": {"runs": 8000, "batch": 1, "timeout_s": 1200, "cycles": 7, "shrink_budget": 80},
}
RULE = ("History = (functional x method x user-object kind x function kind x usage in {forward, forward+backward, "
        "forward+graph-recording backward+second backward (autograd.grad, or for operators the accumulating .backward(create_graph=True) with the caller resetting .grad)} x persistent-or-rebuilt user object x debug mode on/off x method tuning knobs x a dense LAPACK entry point (solve/cholesky/eigh/qr/inverse) failing once per call x the user's callee raising a domain-check exception at its k-th entry of every call (judged when the call survives it) x a second functional on the same objects at every second call of a cycle (one history in four) x cycle length 1-3 x "
        "release order), repeated for 5 (quick) cycles with the cyclic GC disabled; census of live torch.Tensor "
        "objects (gc.get_objects) whenever the result pool is empty. Violation iff the tensor count strictly "
        "increases on each of three consecutive cycles after the warm-up cycle, or iff on three consecutive cycles "
        "tensors allocated during the cycle survive its release (retention that is replaced, not accumulated). A case is non-trivial iff the call "
        "entered the user's callee at least once and produced a differentiable result; distinct = distinct "
        "(functional, method, object kind, function kind, usage, persistent?, cycle length) tuples.")
ASSUMPTIONS = [
    "the census sees Python-wrapped, gc-tracked tensors (the project's own criterion in _tests/utils.py); storage kept "
    "alive purely on the C++ side of an autograd graph without a Python wrapper is invisible",
    "a one-off cached tensor (memoised quadrature nodes, lazily created torch internals) is not a leak: only growth "
    "on three consecutive identical cycles after a warm-up cycle is",
    "aborted calls are outside the statement (it speaks of released outputs): a history whose call raises is counted, "
    "not judged; an injected LAPACK failure that xitorch absorbs by retrying (the call returns) is judged",
]
REAL = ["all xitorch functionals from /repo working tree", "torch autograd", "CPython reference counting"]
STUB = ["the user's functions/modules/operators (xsim.actors)", "the cyclic garbage collector (pinned: disabled)",
        "torch.linalg.solve / cholesky / eigh / qr, torch.inverse (the k-th call of any of them fails once per call in some histories)",
        "the user's callee failing at its k-th entry of every call (ValueError / RuntimeError / FloatingPointError / InjectedFault)",
        "the training loop (the history of calls and releases)"]


def census():
    """(count, bytes, idset) of live tensors; holds no tensor reference on return"""
    n = 0
    nbytes = 0
    seen = set()
    ids = set()
    for o in gc.get_objects():
        if isinstance(o, torch.Tensor):
            n += 1
            ids.add(id(o))
            try:
                if not o.is_sparse:
                    st = o.untyped_storage()
                    p = st.data_ptr()
                    if p not in seen:
                        seen.add(p)
                        nbytes += st.nbytes()
            except Exception:
                pass
    o = None
    return n, nbytes, ids


class Births(object):
    """which live tensors were first seen at which census - robust against id() reuse: an entry is a weak
    reference, checked for identity, and removed when its tensor dies"""

    def __init__(self):
        self.reg = {}

    def census(self, cycle):
        """registers every live tensor not seen before; returns (live count, number newly registered)"""
        import weakref
        n = 0
        new = 0
        kinds = {}
        for o in gc.get_objects():
            if isinstance(o, torch.Tensor):
                n += 1
                ent = self.reg.get(id(o))
                if ent is None or ent[0]() is not o:
                    key = id(o)
                    reg = self.reg

                    def _gone(ref, key=key, reg=reg):
                        e = reg.get(key)
                        if e is not None and e[0] is ref:
                            del reg[key]
                    self.reg[key] = (weakref.ref(o, _gone), cycle)
                    new += 1
                    k = "%s %s grad_fn=%s" % (tuple(o.shape), str(o.dtype).replace("torch.", ""),
                                              type(o.grad_fn).__name__ if o.grad_fn is not None else None)
                    kinds[k] = kinds.get(k, 0) + 1
        o = None
        return n, new, kinds


def describe_new(ids_before):
    out = {}
    for o in gc.get_objects():
        if isinstance(o, torch.Tensor) and id(o) not in ids_before:
            k = "%s %s grad_fn=%s leaf=%s" % (tuple(o.shape), str(o.dtype).replace("torch.", ""),
                                              type(o.grad_fn).__name__ if o.grad_fn is not None else None, o.is_leaf)
            out[k] = out.get(k, 0) + 1
    o = None
    return out


EXTRA_F = ["interp1d", "squad"]


def draw_history(cs, cfg):
    sc = {}
    sc["n"] = cs.randint(1, 3, "n")
    sc["valseed"] = cs.draw(1000, "valseed")
    # one history in eight is dedicated to the internal-failure path (dense solve with shifts, LAPACK failing once)
    linalg_scenario = cs.bool("linalg_scenario", 1, 8)
    sc["family"] = 1 if linalg_scenario else cs.weighted([4, 2, 1], "family")   # 0 function objects, 1 linear operators, 2 interp/squad
    sc["kind2"] = None
    sc["composite"] = 0
    if sc["family"] == 0:
        sc["kind"] = cs.draw(len(AC.ALL_KINDS), "kind")
        sc["fkind"] = ["method", "pf", "sibling", "multisibling"][cs.weighted([5, 1, 2, 1], "fkind")]
        sc["kind2"] = cs.draw(len(AC.ALL_KINDS), "kind2") if sc["fkind"] == "multisibling" else None
        sc["extra_param"] = sc["fkind"] in ("sibling", "multisibling") and cs.bool("extra_param", 1, 2)
    elif sc["family"] == 1:
        sc["kind"] = cs.draw(len(AC.LO_KINDS), "lokind")
        sc["composite"] = cs.weighted([3, 1, 1, 1], "composite")
        sc["n"] = max(sc["n"], 2)
        sc["fkind"] = "linop"
    else:
        sc["kind"] = 0
        sc["fkind"] = "none"
    sc["rgW"] = True
    sc["rgb"] = not cs.bool("b_nograd", 1, 6)
    sc["rgs"] = cs.bool("s_grad", 1, 2)
    sc["debug0"] = False
    # the process-wide debug mode is part of the configuration: one history in six runs with it on
    sc["debug_on"] = cs.bool("debug_on", 1, 6)
    if sc["family"] == 2:
        sc["F"] = {"F": cs.choice(EXTRA_F, "F"), "method": cs.choice(["cspline", "linear"], "im")}
    else:
        fam = 1 if sc["family"] == 1 else 0
        sc["F"] = C10.draw_functional(cs, {"family": fam, "kind": sc["kind"], "composite": sc["composite"]})
        if sc["F"]["F"] in ("jac", "hess") and sc["F"].get("keep_op") and cs.bool("kept_operator_in_solve", 1, 2):
            # an operator the caller keeps is, half of the time, what it hands to an iterative solve (whose backward
            # pass substitutes into the operator): retention ON the kept operator is replaced at every call
            sc["F"]["product"] = "solve"
            sc["F"]["solve_method"] = cs.choice(["bicgstab", "cg"], "kept_solve_method")
    # "bwdg": the graph-recording backward pass is the LAST thing the caller does with the result (the third usage the
    # statement names); in "bwd2" a further, plain backward pass through the recorded graph follows
    sc["usage"] = ["fwd", "bwd", "bwd2", "bwdg"][cs.weighted([1, 2, 2, 2], "usage")]
    # second-order usage through the accumulating API: the last pass is loss.backward(create_graph=True), which
    # stores a gradient with history on every leaf of the graph; the caller then clears .grad of every leaf it
    # owns (linear-operator family only: there every leaf of the call is one the harness holds)
    sc["accumulate"] = sc["family"] == 1 and sc["usage"] == "bwd2" and cs.bool("accumulate", 1, 2)
    if sc["accumulate"] and sc["rgb"]:
        # an operator tensor that does not require grad next to ones that do is the interesting mix here
        sc["rgb"] = not cs.bool("b_nograd_acc", 1, 2)
    # a usually-successful internal call fails once per call: the k-th torch.linalg.solve of every call raises
    # a LAPACK error (xitorch retries with a regularised matrix where it expects singular systems)
    sc["linalg_fault"] = 0
    if linalg_scenario:
        hermitian = AC.LO_KINDS[sc["kind"]] is not AC.LOWithRmv and sc["composite"] != 3
        if hermitian and cs.bool("lapack_in_eigensolver", 1, 2):
            # ... or an eigensolver whose orthogonalisation / Rayleigh-Ritz / overlap factorisation fails once
            sc["F"] = {"F": "symeig", "method": cs.choice(["davidson", "exacteig", "custom_exacteig"], "lem"),
                       "neig": cs.randint(1, 2, "lneig"), "M": cs.bool("lwithM", 1, 3), "knobs": {}}
            sc["linalg_fault"] = cs.randint(1, 4, "lapack_k")
        else:
            sc["F"] = {"F": "solve", "method": cs.choice(["exactsolve", "custom_exactsolve"], "lm"),
                       "E": not cs.bool("no_E", 1, 4), "bck": cs.choice([None, "exactsolve"], "lbck"), "knobs": {}}
            sc["linalg_fault"] = cs.randint(1, 2, "linalg_k")
    elif cs.bool("lapack_fault", 1, 2 if sc["family"] == 1 else 8):
        # ... and in any other history: the k-th call of ANY dense LAPACK entry point (solve / cholesky / eigh / qr /
        # inverse) made by a call fails once.  Judged when the call survives it (a rescue, a fall-back), counted when
        # the error reaches the caller
        sc["linalg_fault"] = cs.randint(1, 4, "lapack_k")
    # the user's callee fails at its k-th entry of every call with an exception class a domain check would raise.
    # Today every functional lets it through (the call is aborted: counted, not judged); a library that absorbs the
    # failure and returns a result is judged like any other returning call
    sc["callee_fault"] = None
    if not sc["linalg_fault"] and sc["family"] != 2 and cs.bool("callee_fault", 1, 8):
        sc["callee_fault"] = (1 + cs.draw(8, "callee_k"), ["value", "runtime", "fpe", "raise"][cs.draw(4, "callee_cls")])
    sc["persist"] = cs.bool("persistent_object", 1, 2)
    sc["cycle_len"] = cs.randint(1, 3, "cycle_len")
    sc["release"] = [cs.draw(3, "rel") for _ in range(3)]
    # a training loop that uses two functionals on the same objects: every second call of a cycle is another functional
    # (state that one of them leaves on the shared object / wrapper / operator is then met by the other)
    sc["F2"] = None
    if sc["family"] in (0, 1) and not linalg_scenario and cs.bool("second_functional", 1, 4):
        fam = 1 if sc["family"] == 1 else 0
        sc["F2"] = C10.draw_functional(cs, {"family": fam, "kind": sc["kind"], "composite": sc["composite"]})
        sc["cycle_len"] = max(sc["cycle_len"], 2)
    sc["opseed"] = cs.draw(1000, "opseed")
    # the user's object keeps a differentiable tensor derived from the result (model.loss = f(y)): the object then
    # reaches the functional's autograd node, which holds the object's method - a cycle through the C++ graph
    sc["cache_on_object"] = sc["family"] != 2 and cs.bool("cache_on_object", 1, 10)
    return sc


def one_call(sc, env_holder, j=0):
    """one call of the functional with the drawn usage; returns everything the caller keeps
    (outputs and gradients) as a list - dropping that list releases the call"""
    if sc["persist"] and env_holder:
        env = env_holder[0]
    else:
        env = C10.build_env(sc) if sc["family"] != 2 else None
        if sc["persist"]:
            env_holder.append(env)
    torch.manual_seed(sc["opseed"])
    F = sc["F"]
    if sc.get("F2") is not None and j % 2 == 1:
        F = sc["F2"]
        SIM.count("reach.second_functional_on_the_same_objects")
    if sc.get("linalg_fault"):
        return _with_linalg_fault(sc, env, F)
    if sc.get("callee_fault"):
        k, cls = sc["callee_fault"]
        nfired = len(SIM.fired)
        SIM.set_plan({SIM.seq + k: cls})
        try:
            out = _one_call_body(sc, env, F)
        finally:
            SIM.set_plan({})
            if len(SIM.fired) > nfired:
                SIM.count("fault.callee_" + cls)
        if len(SIM.fired) > nfired:
            SIM.count("reach.call_survived_callee_failure")
        return out
    return _one_call_body(sc, env, F)


from xsim.probe import FaultyLinalgSolve as _FaultyLinalgSolve


def _with_linalg_fault(sc, env, F=None):
    w = _FaultyLinalgSolve(sc["linalg_fault"])
    w.__enter__()
    try:
        out = _one_call_body(sc, env, F)
    finally:
        w.__exit__()
    SIM.count("fault.linalg_error", w.fired)
    if w.fired:
        SIM.count("reach.call_survived_linalg_error")
    return out


def _one_call_body(sc, env, F=None):
    F = sc["F"] if F is None else F
    if sc["family"] == 2:
        from xitorch.interpolate import Interp1D
        from xitorch.integrate import SQuad
        x = torch.linspace(0, 1, 6, dtype=AC.DT)
        y = (torch.sin(3 * x) + 0.1).requires_grad_()
        if F["F"] == "interp1d":
            xq = torch.linspace(0.1, 0.9, 4, dtype=AC.DT).requires_grad_()
            r = Interp1D(x, y, method=F["method"])(xq)
            leaves = [y, xq]
        else:
            r = SQuad(x, method="cspline" if F["method"] == "cspline" else "trapz").cumsum(y)
            leaves = [y]
        loss = (r * r).sum()
    else:
        loss = C10.run_functional(env, F)
        leaves = C10.leaves_of(env)
    if sc.get("cache_on_object") and env is not None and env.actors and loss.requires_grad:
        env.actors[0].__dict__["cached_result"] = loss * 1.0
        SIM.count("reach.result_cached_on_the_object")
    keep = [loss]
    if sc["usage"] != "fwd" and loss.requires_grad and leaves:
        cg = sc["usage"] in ("bwd2", "bwdg")
        g = torch.autograd.grad(loss, leaves, create_graph=cg, allow_unused=True, retain_graph=True)
        keep.append(g)
        if sc["usage"] == "bwdg":
            SIM.count("reach.graph_recording_backward_last")
        if sc["usage"] == "bwd2":
            gs = [x for x in g if x is not None and x.requires_grad]
            if gs:
                l2 = sum((x * x).sum() for x in gs)
                if sc.get("accumulate"):
                    with warnings.catch_warnings():
                        warnings.simplefilter("ignore")
                        l2.backward(create_graph=True, retain_graph=True)
                    # the caller takes the accumulated gradients and resets .grad of every leaf it owns
                    keep.append([x.grad for x in leaves])
                    for x in leaves:
                        x.grad = None
                    SIM.count("reach.second_order_accumulating_backward")
                else:
                    g2 = torch.autograd.grad(l2, leaves, allow_unused=True, retain_graph=True)
                    keep.append(g2)
    return keep, bool(loss.requires_grad)


def run(cs, cfg):
    SIM.reset()
    sc = draw_history(cs, cfg)
    stats = {}
    cases = []
    viol = []

    def cnt(k, n=1):
        stats[k] = stats.get(k, 0) + n

    F = sc["F"]
    label = (F["F"], str(F.get("method", F.get("product", F.get("limits", "")))))
    kind = C10.kind_label(sc) if sc["family"] != 2 else "grid"
    decoded = {"functional": label, "kind": kind, "fkind": sc["fkind"], "usage": sc["usage"] + ("+accumulate" if sc.get("accumulate") else ""), "debug_mode": sc.get("debug_on"),
               "persistent_object": sc["persist"], "result_cached_on_object": bool(sc.get("cache_on_object")), "cycle_len": sc["cycle_len"], "release_order": sc["release"],
               "n": sc["n"]}
    from xitorch.debug.modes import set_debug_mode
    set_debug_mode(bool(sc.get("debug_on")))
    was_enabled = gc.isenabled()
    gc.collect()
    gc.disable()
    counts = []
    nbytes = []
    idsets = []
    births = Births()
    newborn = []
    newkinds = []
    raised = None
    differentiable = False
    env_holder = []
    try:
        with warnings.catch_warnings():
            warnings.simplefilter("ignore")
            for cyc in range(cfg["cycles"]):
                pool = []
                for j in range(sc["cycle_len"]):
                    keep, diff = one_call(sc, env_holder, j)
                    differentiable = differentiable or diff
                    pool.append(keep)
                    keep = None
                # release in the drawn order
                order = sc["release"][:len(pool)]
                while pool:
                    i = order.pop(0) % len(pool) if order else 0
                    pool.pop(i)
                c, b, ids = census()
                counts.append(c)
                nbytes.append(b)
                idsets.append(ids)
                _, nb_, kinds_ = births.census(cyc)
                newborn.append(nb_)
                newkinds.append(kinds_)
                SIM.note("census", cyc)
    except Exception as e:   # the functional rejected this configuration: nothing to judge
        raised = "%s: %s" % (type(e).__name__, str(e)[:200])
        e = None
    for k_, v_ in SIM.counters.items():
        cnt(k_, v_)
    decoded["linalg_fault"] = sc.get("linalg_fault", 0)
    decoded["callee_fault"] = sc.get("callee_fault")
    decoded["second_functional"] = None if sc.get("F2") is None else (sc["F2"]["F"], str(sc["F2"].get("method", "")))
    decoded["counts"] = counts
    decoded["bytes"] = nbytes
    decoded["events"] = SIM.seq
    decoded["raised"] = raised
    cnt("calls", cfg["cycles"] * sc["cycle_len"] if raised is None else 0)
    cnt("fault.gc_never")
    if raised is not None:
        cnt("history_raised")
    else:
        d = [counts[i + 1] - counts[i] for i in range(len(counts) - 1)]
        decoded["deltas"] = d
        post = d[1:] if len(d) > 3 else d      # drop the warm-up transition
        grow3 = any(all(x > 0 for x in post[i:i + 3]) for i in range(0, max(len(post) - 2, 0)))
        if grow3:
            new = describe_new(idsets[1])
            per_call = min(x for x in post if x > 0) / float(sc["cycle_len"])
            viol.append({"sig": {"inv": "tensor_growth", "functional": label[0], "usage": sc["usage"] + ("+accumulate" if sc.get("accumulate") else ""),
                                 "adaptive": str(label[1] in ("rk23", "rk45")), "debug": str(bool(sc.get("debug_on"))),
                                 "cache": str(bool(sc.get("cache_on_object")))},
                         "detail": "live tensor count grows every cycle with the cyclic GC disabled: counts=%s "
                                   "(~%.1f tensors per call) functional=%s kind=%s fkind=%s usage=%s persistent=%s; "
                                   "surviving tensors by kind: %s" %
                                   (counts, per_call, label, kind, sc["fkind"], sc["usage"], sc["persist"],
                                    dict(sorted(new.items(), key=lambda kv: -kv[1])[:8]))})
        elif any(x > 0 for x in post):
            cnt("one_off_growth_not_flagged")
        # per-call retention that is replaced rather than accumulated: tensors first seen at the census of cycle c
        # (allocated during that cycle and still alive after its outputs were released), on three consecutive
        # cycles after the warm-up cycle
        decoded["new_survivors_per_cycle"] = newborn
        pn = newborn[2:] if len(newborn) > 4 else newborn[1:]
        if not grow3 and any(all(x > 0 for x in pn[i:i + 3]) for i in range(0, max(len(pn) - 2, 0))):
            viol.append({"sig": {"inv": "per_call_retention", "functional": label[0], "usage": sc["usage"] + ("+accumulate" if sc.get("accumulate") else ""),
                                 "adaptive": str(label[1] in ("rk23", "rk45")), "debug": str(bool(sc.get("debug_on"))),
                                 "cache": str(bool(sc.get("cache_on_object")))},
                         "detail": "after every cycle some tensors allocated during that cycle are still alive once all "
                                   "results are released (replaced at the next call, so the count does not grow): new "
                                   "survivors per cycle=%s live counts=%s functional=%s kind=%s fkind=%s usage=%s "
                                   "persistent=%s; last cycle's survivors by kind: %s" %
                                   (newborn, counts, label, kind, sc["fkind"], sc["usage"], sc["persist"],
                                    dict(sorted(newkinds[-1].items(), key=lambda kv: -kv[1])[:6]))})
        elif any(x > 0 for x in pn):
            cnt("one_off_new_survivors_not_flagged")
        if SIM.seq > 0 and differentiable:
            cases.append("|".join(str(x) for x in (label[0], label[1], kind, sc["fkind"], sc["usage"],
                                                    sc["persist"], sc["cycle_len"])))
        if sc["cycle_len"] > 1:
            cnt("reach.overlapping_lifetimes")
        if sc["usage"] == "bwd2":
            cnt("reach.graph_recording_backward")
        if sc["persist"]:
            cnt("reach.persistent_object")
    # the pinned scheduler runs once at the end: what it frees is cyclic garbage
    idsets = None
    env_holder = None
    births = None
    before = census()[0]
    gc.collect()
    after = census()[0]
    decoded["cyclic_garbage_tensors_freed_by_final_collect"] = before - after
    if before - after > 0:
        cnt("histories_with_cyclic_garbage")
    if was_enabled:
        gc.enable()
    set_debug_mode(False)
    if sc.get("debug_on"):
        cnt("reach.debug_mode_on")
    return {"violations": viol, "stats": stats, "cases": cases, "decoded": decoded,
            "digest": SIM.digest(), "evals": 1, "events": SIM.seq}
