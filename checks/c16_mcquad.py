"""C16 - mcquad returns the weighted sample mean it documents, with its gradient.

What is simulated.  The sampler is a process that talks to three peers (log p,
f, the caller-supplied step) and reads one nondeterminism source (the torch
RNG).  The simulator owns all four: the peers are numbered probes that record
the point they are called at, the RNG is seeded from the choice source (one
seed = one accept/reject path) and its draws are recorded by a wrapper around
torch.rand / torch.randn_like installed for the duration of the call.  The
verdict is a check over the recorded history against a chain model that is
deterministic wherever the statement is (counts, order, start point, burn-in,
uphill acceptance, which points the mean and the gradients are taken over) and
statistical only where the RNG decides (downhill acceptance frequency over the
whole batch of seeds, 6 sigma).

Per run: one configuration (sampler x nsamples x nburnout x step size x dim x f
output kind x where the parameters of f and of log p live x usage), one seed.
"""
from __future__ import annotations

import math
import warnings

import numpy as np
import torch

from xsim.probe import SIM
from xsim import actors as AC
from xsim.snapshot import Snapshot, compare

PID = "C16"
LEVEL = "exploration"
TIERS = {
    "quick": {"runs": 6000, "batch": 8, "timeout_s": 600, "max_n": 10, "max_burn": 6, "shrink_budget": 80},
    "thorough": {"runs": 60000, "batch": 16, "timeout_s": 1800, "max_n": 40, "max_burn": 20, "shrink_budget": 160},
}
RULE = ("Configuration = sampler {mh, mhcustom with a deterministic contraction, _dummy1d} x nsamples 1-10 (quick) x "
        "nburnout 0-6 x step size x dim 1-3 x (mh) target density truncated to a box (log p = -inf outside) x f output {scalar, vector, tuple, constant, its own argument, a view of it, a stored tensor, data-dependent branch that is disconnected from the parameters at some samples} x backward-only sampler options x parameters of f and of log p "
        "{explicit tensors, held by one of 14 EditableModule / nn.Module kinds, f and log p on the same object or on two} "
        "x some tensors not requiring grad x an extra tensor entering neither function x usage {forward, backward, "
        "graph-recording backward + second backward, linearity triple, peer failing at its k-th entry then retry, three successive plain backward passes}; in a quarter of the backward usages a peer first fails at its k-th entry INSIDE the backward pass (objects judged, pass repeated); in-place or pure custom step moving every coordinate, all but the last, or one coordinate per step (single-site sweep); non-float tuple component; explicit parameters computed from one another; only the start point requiring grad; backward pass under a caller-opened substitution; one torch RNG seed per run. The history of "
        "points at which f, log p and the custom step are entered, and of RNG draws, is recorded and judged against the "
        "chain model. A case is non-trivial iff the sampler entered log p or the custom step at >=2 distinct points and "
        "a gradient was judged or nburnout>0; distinct = distinct (sampler, nsamples, nburnout, dim, f kind, parameter "
        "placement, usage) tuples.")
ASSUMPTIONS = [
    "'after nburnout burn-in steps': for mhcustom both readings are accepted - the first sample is the burned-in state "
    "g^nburnout(x0) or the state after one more step",
    "for mh a log p evaluation at a point seen before is a re-evaluation, any new point is a proposal; downhill "
    "acceptance is judged only statistically over the batch (6 sigma), everything else deterministically",
    "RNG draws are observed through torch.rand / torch.randn_like; if an implementation draws differently the "
    "draw-based sub-checks (step size, chain continuity in burn-in) are skipped and counted, not failed",
    "gradient reference: plain autograd through the self-normalised weighted mean over the recorded samples "
    "(weights proportional to exp(log p - stopgrad log p)); tolerance 1e-8 first order, 1e-7 second order",
]
REAL = ["xitorch.integrate.mcquad (forward and both backward orders), the samplers in "
        "xitorch/_impls/integrate/mcsamples/mcmc.py, PureFunction substitution, from /repo working tree", "torch autograd"]
STUB = ["f, log p and the custom step (xsim.actors; every entry a numbered probe recording its point)",
        "the torch RNG (seeded per run from the choice source; draws recorded)", "the chain model / explicit sample mean"]

DT = AC.DT
VTOL = 1e-10
GTOL = 1e-8


# ------------------------------------------------------------------ scenario
def draw_scenario(cs, cfg):
    sc = {}
    sc["sampler"] = ["mh", "mhcustom", "_dummy1d"][cs.weighted([4, 4, 2], "sampler")]
    sc["d"] = 1 if sc["sampler"] == "_dummy1d" else cs.randint(1, 3, "d")
    sc["nsamples"] = cs.randint(1, cfg["max_n"], "nsamples")
    sc["nburnout"] = cs.randint(0, cfg["max_burn"], "nburnout")
    sc["step"] = [0.5, 1.0, 0.2, 1.7][cs.draw(4, "step")]
    # mh only: a truncated target (log p = -inf outside a box): proposals outside the support are legal inputs and
    # must be rejected like any other downhill proposal with acceptance probability zero
    sc["bounded_support"] = sc["sampler"] == "mh" and cs.bool("bounded_support", 1, 4)
    sc["valseed"] = cs.draw(1000, "valseed")
    sc["rng"] = cs.draw(100000, "rngseed")
    sc["fkind"] = ["scalar", "vector", "tuple", "const", "identity", "view", "param", "tuple_bool", "branch"][
        cs.weighted([4, 3, 3, 1, 1, 1, 1, 1, 2], "fkind")]
    sc["step_inplace"] = cs.bool("step_inplace", 1, 3)
    # which coordinates the caller's step moves: all of them, all but the last, or one per step (single-site sweep)
    sc["step_kind"] = cs.weighted([3, 1, 1], "step_kind")
    # explicit parameters computed from one another (b = b0 * (1 + 0.1 a)): each slot must get its own partial
    sc["dependent_params"] = cs.bool("dependent_params", 1, 3)
    # only x0 requires grad: a tensor that enters neither function's parameters
    sc["only_x0_grad"] = cs.bool("only_x0_grad", 1, 12)
    # the backward pass runs while the objects hold other tensors than during the forward pass
    sc["bwd_under_subst"] = cs.bool("bwd_under_subst", 1, 4)
    # the same call once more with grad recording off and the debug-mode pre-flight checks on
    sc["nograd_debug"] = cs.bool("nograd_debug", 1, 6)
    # where the parameters live
    sc["fhold"] = ["object", "explicit"][cs.weighted([3, 2], "fhold")]
    sc["phold"] = ["object", "explicit", "same_object"][cs.weighted([2, 2, 2], "phold")]
    if sc["phold"] == "same_object" and sc["fhold"] != "object":
        sc["phold"] = "object"
    sc["kind"] = cs.draw(len(AC.ALL_KINDS), "kind")
    sc["kind2"] = cs.draw(len(AC.ALL_KINDS), "kind2")
    sc["rgW"] = not cs.bool("W_nograd", 1, 6)
    sc["_placeholder"] = 0
    sc["rgb"] = not cs.bool("b_nograd", 1, 6)
    sc["a_grad"] = not cs.bool("a_nograd", 1, 5)
    sc["c_grad"] = not cs.bool("c_nograd", 1, 5)
    sc["zkind"] = ["tensor_grad", "tensor_nograd", "float"][cs.weighted([3, 1, 1], "zkind")]
    sc["usage"] = ["fwd", "bwd", "bwd2", "linearity", "fault_retry", "bwd_twice"][cs.weighted([1, 4, 3, 1, 1, 2], "usage")]
    sc["fault_k"] = cs.randint(1, 12, "fault_k")
    # a peer fails inside the BACKWARD pass (at its k-th entry there); the pass is then repeated fault-free and judged
    sc["bwd_fault"] = cs.randint(1, 8, "bwd_fault_k") if cs.bool("bwd_fault", 1, 4) else 0
    sc["lb"], sc["ub"] = [(-2.0, 2.0), (-1.0, 3.0), (float("-inf"), float("inf"))][cs.draw(3, "bounds")]
    # options for the backward pass that differ from the forward ones: the backward pass integrates over the
    # samples of the forward pass, so sampler options given for it must not change which samples are used
    sc["bck"] = [None, "nsamples", "nburnout", "step_size"][cs.weighted([3, 1, 1, 1], "bck_options")]
    return sc


class Env(object):
    pass


def build_env(sc):
    if sc.get("only_x0_grad"):
        sc = dict(sc, rgW=False, rgb=False, a_grad=False, c_grad=False,
                  zkind="float" if sc["zkind"] != "float" else "float", dependent_params=False)
    env = Env()
    AC.G16_KIND[0] = sc.get("step_kind", 0)
    n = max(sc["d"], 1)
    vals = AC.make_values(sc["valseed"], max(n, 2))
    env.vals = vals
    env.actors = []
    g = torch.Generator()
    g.manual_seed(31 + sc["valseed"])
    env.x0 = 0.5 * torch.randn(sc["d"], generator=g, dtype=DT)
    AC.LOGP16_RADIUS[0] = None
    if sc.get("bounded_support") and float(env.x0.abs().max()) < 1.0:
        AC.LOGP16_RADIUS[0] = 1.3
        SIM.count("reach.truncated_target_density")
    if sc.get("only_x0_grad"):
        env.x0.requires_grad_()
    env.a = torch.tensor(0.9, dtype=DT).requires_grad_(sc["a_grad"])
    env.c = torch.tensor(0.6, dtype=DT).requires_grad_(sc["c_grad"])
    if sc["zkind"] == "float":
        env.z = 0.25
    else:
        env.z = torch.tensor([0.3, -0.2], dtype=DT).requires_grad_(sc["zkind"] == "tensor_grad")
    # ---- f
    if sc["fhold"] == "object":
        A = AC.build_actor(AC.ALL_KINDS[sc["kind"]], vals, sc["rgW"], sc["rgb"])
        env.actors.append(A)
        env.fA = A
        env.ffcn = A.f_mc16
        env.fparams = (env.a, env.z, None)        # fkind filled per call
        env.fWb = lambda: (A._W(), A._b())
        env.f_explicit = []
    else:
        W = vals["W"].clone().requires_grad_(sc["rgW"])
        b = vals["b"].clone().requires_grad_(sc["rgb"])
        env.extra_leaves = []
        if sc.get("dependent_params") and sc["a_grad"]:
            env.extra_leaves.append(b)
            b = b * (1.0 + 0.1 * env.a)         # a slot computed from another slot

        def fplain(x, a, z, fkind, W, b):
            SIM.enter("f_mc16", (None, x))
            return AC.f16_ref(W, b, x, a, fkind)
        env.fA = None
        env.ffcn = fplain
        env.fWb = lambda: (W, b)
        env.f_explicit = [W, b]
    # ---- log p
    if sc["phold"] == "same_object":
        B = env.fA
    elif sc["phold"] == "object":
        B = AC.build_actor(AC.ALL_KINDS[sc["kind2"]], vals, sc["rgW"], sc["rgb"], second=True)
        env.actors.append(B)
    else:
        B = None
    env.pA = B
    if B is not None:
        B.step_inplace = bool(sc["step_inplace"])
        env.pfcn = B.logp16
        env.step = B.g16
        env.pWb = lambda: (B._W(), B._b())
        env.p_explicit = []
    else:
        W2 = vals["W2"].clone().requires_grad_(sc["rgW"])
        b2 = vals["b2"].clone().requires_grad_(sc["rgb"])
        if sc.get("dependent_params") and sc["c_grad"]:
            env.extra_leaves = getattr(env, "extra_leaves", []) + [b2]
            b2 = b2 * (1.0 + 0.1 * env.c)

        def pplain(x, c, z, W2, b2):
            SIM.enter("logp16", (None, x))
            return AC.logp16_ref(W2, b2, x, c)

        def gplain(x, c, z, W2, b2):
            SIM.enter("g16", (None, x))
            if sc["step_inplace"]:
                x.copy_(AC.g16_ref(x))
                return x
            return AC.g16_ref(x)
        env.pfcn = pplain
        env.step = gplain
        env.pWb = lambda: (W2, b2)
        env.p_explicit = [W2, b2]
    return env


def fargs(env, fkind):
    return (env.a, env.z, fkind) + tuple(env.f_explicit)


def pargs(env):
    return (env.c, env.z) + tuple(env.p_explicit)


def leaves_of(env):
    out = []
    seen = set()

    def add(t):
        if isinstance(t, torch.Tensor) and t.requires_grad and t.dtype.is_floating_point and id(t) not in seen:
            seen.add(id(t))
            out.append(t)
    for t in [env.a, env.c, env.z] + env.f_explicit + env.p_explicit + getattr(env, "extra_leaves", []):
        add(t)
    for A in env.actors:
        for sl in Snapshot(A, light=True).slots:
            add(sl.ref)
    return out


def flat(y):
    if isinstance(y, (tuple, list)):
        return torch.cat([t.reshape(-1).to(DT) for t in y])
    return y.reshape(-1)


# ---------------------------------------------------------------- recording
class Recorder(object):
    """numbers every entry into f / log p / the custom step with the point it is called at, and
    records the RNG draws made through torch.rand / torch.randn_like"""

    def __init__(self):
        self.events = []      # (name, point as detached clone, phase)
        self.randn = []
        self.rand = []
        self.phase = "fwd"

    def observer(self, seq, name, owner):
        x = owner[1] if isinstance(owner, tuple) else None
        self.events.append((name, x.detach().clone() if isinstance(x, torch.Tensor) else None, self.phase))
        return None

    def __enter__(self):
        self._randn_like, self._rand = torch.randn_like, torch.rand
        rec = self

        def randn_like(*a, **k):
            r = rec._randn_like(*a, **k)
            rec.randn.append((r.detach().clone(), rec.phase))
            return r

        def rand(*a, **k):
            r = rec._rand(*a, **k)
            rec.rand.append((r.detach().clone(), rec.phase))
            return r
        torch.randn_like, torch.rand = randn_like, rand
        SIM.observers.append(self.observer)
        return self

    def __exit__(self, *a):
        torch.randn_like, torch.rand = self._randn_like, self._rand
        SIM.observers.remove(self.observer)


def same(a, b):
    return a.shape == b.shape and bool(torch.equal(a, b))


def dummy1d_model(n, lb, ub, logp_at):
    """independent re-statement of the deterministic 1-D rule: Gauss-Legendre nodes in t = atan(x)"""
    tu, tl = math.atan(ub), math.atan(lb)
    tlg, wlg = np.polynomial.legendre.leggauss(n)
    t = torch.tensor(tlg, dtype=DT) * (0.5 * (tu - tl)) + 0.5 * (tu + tl)
    x = torch.tan(t)
    base = torch.tensor(wlg, dtype=DT) * 0.5 * (tu - tl) / torch.cos(t) ** 2
    return x, base


# ------------------------------------------------------------------- one run
def call_mcquad(env, sc, fkind, ffcn=None):
    from xitorch.integrate import mcquad
    opts = {}
    if sc["sampler"] == "mh":
        opts = dict(method="mh", nsamples=sc["nsamples"], nburnout=sc["nburnout"], step_size=sc["step"])
    elif sc["sampler"] == "mhcustom":
        opts = dict(method="mhcustom", nsamples=sc["nsamples"], nburnout=sc["nburnout"], custom_step=env.step)
    else:
        opts = dict(method="_dummy1d", nsamples=sc["nsamples"], lb=sc["lb"], ub=sc["ub"])
    if sc.get("bck") == "nsamples":
        opts["bck_options"] = {"nsamples": sc["nsamples"] + 3}
    elif sc.get("bck") == "nburnout":
        opts["bck_options"] = {"nburnout": sc["nburnout"] + 2}
    elif sc.get("bck") == "step_size":
        opts["bck_options"] = {"step_size": 0.31}
    torch.manual_seed(sc["rng"])
    # a fresh copy of the start point per call: a caller-supplied in-place step advances the tensor it is given
    x0 = env.x0 * 1.0 if env.x0.requires_grad else env.x0.clone()
    return mcquad(ffcn or env.ffcn, env.pfcn, x0, fparams=fargs(env, fkind), pparams=pargs(env), **opts)


def run(cs, cfg):
    sc = draw_scenario(cs, cfg)
    SIM.reset()
    stats = {}
    viol = []
    batch = {"downhill": []}

    def cnt(k, n=1):
        stats[k] = stats.get(k, 0) + n

    def V(inv, detail, **extra):
        sig = {"inv": inv, "sampler": sc["sampler"], "usage": sc["usage"]}
        sig.update(extra)
        viol.append({"sig": sig, "detail": "%s | sampler=%s nsamples=%d nburnout=%d step=%s d=%d f=%s fhold=%s phold=%s "
                     "kinds=%s/%s usage=%s rng=%d" % (detail, sc["sampler"], sc["nsamples"], sc["nburnout"], sc["step"],
                                                      sc["d"], sc["fkind"], sc["fhold"], sc["phold"],
                                                      AC.ALL_KINDS[sc["kind"]].__name__, AC.ALL_KINDS[sc["kind2"]].__name__,
                                                      sc["usage"], sc["rng"])})

    env = build_env(sc)
    if sc.get("only_x0_grad"):
        sc = dict(sc, zkind="float")
    snaps = [Snapshot(A, "obj%d" % i) for i, A in enumerate(env.actors)]
    decoded = {"scenario": sc}
    n, nb = sc["nsamples"], sc["nburnout"]
    fk = sc["fkind"]
    rec = Recorder()
    res = None
    err = None
    with warnings.catch_warnings():
        warnings.simplefilter("ignore")
        with rec:
            try:
                res = call_mcquad(env, sc, fk)
            except Exception as e:
                err = e
    if err is not None:
        V("forward_raises", "mcquad raised %s: %s" % (type(err).__name__, str(err)[:300]))
        return finish(sc, viol, stats, decoded, batch, 0, rec)
    fev = [x for (nm, x, ph) in rec.events if nm == "f_mc16"]
    pev = [x for (nm, x, ph) in rec.events if nm == "logp16"]
    gev = [x for (nm, x, ph) in rec.events if nm == "g16"]
    decoded["n_f_calls"], decoded["n_logp_calls"], decoded["n_step_calls"] = len(fev), len(pev), len(gev)
    cnt("events", len(rec.events))
    # ---- the samples: where f was evaluated after the type-probing call at x0
    if not fev or not same(fev[0], env.x0):
        V("f_probe", "the first evaluation of f is not at x0")
    S = fev[1:]
    if len(S) != n:
        V("sample_count", "f was evaluated at %d points after the probing call, nsamples=%d" % (len(S), n))
        return finish(sc, viol, stats, decoded, batch, len(rec.events), rec)
    Wf, bf = env.fWb()
    Wp, bp = env.pWb()

    def lp(x):
        return AC.logp16_ref(Wp.detach(), bp.detach(), x.detach(), env.c.detach())

    # ---- sampler-specific chain model
    weights0 = torch.full((n,), 1.0 / n, dtype=DT)
    if sc["sampler"] == "mhcustom":
        xs = [env.x0]
        for _ in range(nb + n + 1):
            xs.append(AC.g16_ref(xs[-1]))
        ok_s = [s for s in (nb, nb + 1) if all(same(S[i], xs[s + i]) for i in range(n))]
        if not ok_s:
            which = [k for k in range(len(xs)) if same(S[0], xs[k])]
            V("burn_in", "the samples are not g^(s+i)(x0), i<nsamples, for s=nburnout or nburnout+1 (first sample is "
              "g^%s(x0); nburnout=%d)" % (which[0] if which else "?", nb))
        # the step is always applied to the previous state: no restart from x0 after burn-in
        prev_out = None
        for k, x in enumerate(gev):
            if k == 0:
                if not same(x, env.x0):
                    V("chain_start", "the first custom step is not applied to x0")
            elif not same(x, prev_out):
                V("chain_continuity", "custom step #%d is applied to a point that is not the previous step's output "
                  "(restart?)" % k)
                break
            prev_out = AC.g16_ref(x)
        if len(gev) >= 2:
            cnt("reach.custom_steps>=2")
    elif sc["sampler"] == "mh":
        judge_mh(sc, env, rec, S, pev, lp, V, cnt, batch)
    else:
        xq, base = dummy1d_model(n, sc["lb"], sc["ub"], lp)
        if not all(torch.allclose(S[i].reshape(()), xq[i], rtol=1e-12, atol=1e-12) for i in range(n)):
            V("dummy1d_nodes", "the sample points are not the Gauss-Legendre nodes in atan(x)")
        w = base * torch.exp(torch.stack([lp(x.reshape(1)) for x in xq]))
        weights0 = w / w.sum()
    # ---- value: the documented weighted mean over exactly these samples
    Sd = [x.detach() for x in S]

    def surrogate(fkind_):
        """self-normalised weighted mean over the recorded samples, as a differentiable function of everything
        currently installed (value = sum w_i f_i; d/d theta_p = score-function estimator)"""
        Wf_, bf_ = env.fWb()
        Wp_, bp_ = env.pWb()
        lps = torch.stack([AC.logp16_ref(Wp_, bp_, x, env.c) for x in Sd])
        ww = weights0 * torch.exp(lps - lps.detach())
        ww = ww / ww.sum()
        fs = torch.stack([flat(AC.f16_ref(Wf_, bf_, x, env.a, fkind_)) for x in Sd])
        return (ww.unsqueeze(-1) * fs).sum(0)

    ref = surrogate(fk)
    rf = flat(res)
    if tuple(rf.shape) != tuple(ref.shape) or not torch.allclose(rf.detach(), ref.detach(), rtol=VTOL, atol=VTOL):
        V("value", "the result differs from the explicit weighted mean over the recorded samples: max abs err %.3e" %
          (float((rf.detach() - ref.detach()).abs().max()) if rf.shape == ref.shape else float("nan")))
    if fk == "const" and not torch.allclose(rf.detach(), torch.full_like(rf, 1.75), rtol=1e-12, atol=1e-12):
        V("normalisation", "a constant integrand does not return the constant: %s" % rf.detach().tolist())
    if fk == "param":
        bnow = env.fWb()[1].detach()
        if rf.shape != bnow.reshape(-1).shape or not torch.allclose(rf.detach(), bnow.reshape(-1), rtol=1e-12, atol=1e-12):
            V("normalisation", "an integrand that returns a stored tensor does not give that tensor back")
    if fk == "tuple":
        if not (isinstance(res, (tuple, list)) and len(res) == 2 and res[0].shape == () and res[1].shape == (2,)):
            V("tuple_output", "tuple output does not keep its structure")
        cnt("reach.tuple_output")
    nfwd = len(rec.events)
    nrand_fwd = len(rec.randn) + len(rec.rand)
    # ---- usage
    leaves = leaves_of(env)
    if sc.get("only_x0_grad") and rf.requires_grad:
        # nothing but the start point requires grad: asking for its gradient must not raise
        cnt("reach.only_x0_requires_grad")
        try:
            with warnings.catch_warnings():
                warnings.simplefilter("ignore")
                torch.autograd.grad(rf.sum(), [env.x0], allow_unused=True, retain_graph=True)
        except Exception as e:
            V("backward_raises", "backward w.r.t. the start point (the only tensor requiring grad) raised %s: %s" %
              (type(e).__name__, str(e)[:200]), unused_z="x0")
    if sc["usage"] == "linearity":
        # f1, f2 and 2 f1 - 3 f2 on the same samples (same seed): linear in f
        with warnings.catch_warnings():
            warnings.simplefilter("ignore")
            r1 = flat(call_mcquad(env, sc, "vector")).detach()
            r2 = flat(call_mcquad(env, sc, "scalar")).detach()
            if sc["fhold"] == "object":
                from xitorch._core.pure_function import make_sibling
                m = env.ffcn

                @make_sibling(m)
                def cfn(x, a, z, fkind):
                    return 2.0 * m(x, a, z, "vector") - 3.0 * m(x, a, z, "scalar")
            else:
                def cfn(x, a, z, fkind, W, b):
                    return 2.0 * AC.f16_ref(W, b, x, a, "vector") - 3.0 * AC.f16_ref(W, b, x, a, "scalar")
            r3 = flat(call_mcquad(env, sc, "vector", ffcn=cfn)).detach()
        if not torch.allclose(r3, 2.0 * r1 - 3.0 * r2, rtol=1e-10, atol=1e-10):
            V("linearity", "E[2 f1 - 3 f2] != 2 E[f1] - 3 E[f2] on the same samples (max abs err %.3e)" %
              float((r3 - (2.0 * r1 - 3.0 * r2)).abs().max()))
        cnt("reach.linearity_triple")
    elif sc["usage"] == "fault_retry":
        # one of the sampler's peers fails at its k-th entry; the same call with the same seed afterwards must
        # give the same value (no sampler state survives a failed call) and leave the objects untouched
        from xsim.probe import InjectedFault
        k0 = SIM.seq
        SIM.set_plan({k0 + sc["fault_k"]: "raise"})
        fired = False
        with warnings.catch_warnings():
            warnings.simplefilter("ignore")
            try:
                call_mcquad(env, sc, fk)
            except InjectedFault:
                fired = True
            except Exception as e:
                fired = True
                cnt("fault_rewrapped")
        SIM.set_plan({})
        if fired:
            cnt("fault.raise")
            for A, sn in zip(env.actors, snaps):
                for inv, detail in compare(sn, A):
                    V("object_state_after_fault", "%s: %s" % (inv, detail))
            with warnings.catch_warnings():
                warnings.simplefilter("ignore")
                r2 = flat(call_mcquad(env, sc, fk)).detach()
            cnt("fault.retry_after_fault")
            if r2.shape != rf.shape or not torch.allclose(r2, rf.detach(), rtol=1e-12, atol=1e-12):
                V("retry_differs", "the same call with the same seed after a failed call gives a different value "
                  "(max abs diff %.3e)" % float((r2 - rf.detach()).abs().max()))
        else:
            cnt("fault_not_reached")
    elif sc["usage"] == "bwd_twice" and leaves and rf.requires_grad:
        # several successive plain backward passes through the same result (retain_graph): each is judged
        g = torch.Generator()
        g.manual_seed(78)
        rec.phase = "bwd"
        for rep in range(3):
            w = torch.rand(rf.shape, generator=g, dtype=DT) + 0.5
            sub = leaves if rep == 2 else leaves[rep::2]
            if not sub:
                continue
            gx = None
            with warnings.catch_warnings():
                warnings.simplefilter("ignore")
                with rec:
                    try:
                        gx = torch.autograd.grad((rf * w).sum(), sub, allow_unused=True, retain_graph=True)
                    except Exception as e:
                        V("backward_raises", "backward pass #%d through the same result raised %s: %s" %
                          (rep + 1, type(e).__name__, str(e)[:300]), unused_z=str(sc["zkind"] == "tensor_grad"))
            if gx is not None:
                gr = torch.autograd.grad((ref * w).sum(), sub, allow_unused=True, retain_graph=True) \
                    if ref.requires_grad else [None] * len(sub)
                judge_grads(gx, gr, sub, GTOL, "gradient_first_order", V, env)
        cnt("reach.repeated_backward")
    elif sc["usage"] in ("bwd", "bwd2") and leaves:
        g = torch.Generator()
        g.manual_seed(77)
        w = torch.rand(rf.shape, generator=g, dtype=DT) + 0.5
        cg = sc["usage"] == "bwd2"
        rec.phase = "bwd"
        gx = None
        import contextlib as _cl
        if sc.get("bwd_fault") and rf.requires_grad:
            from xsim.probe import InjectedFault
            SIM.set_plan({SIM.seq + sc["bwd_fault"]: "raise"})
            failed = False
            with warnings.catch_warnings():
                warnings.simplefilter("ignore")
                try:
                    torch.autograd.grad((rf * w).sum(), leaves, allow_unused=True, create_graph=cg, retain_graph=True)
                except BaseException:   # noqa  (autograd may re-wrap the peer's exception)
                    failed = True
            SIM.set_plan({})
            if failed:
                cnt("fault.raise_in_backward")
                cnt("fault.retry_after_fault")
                for A, sn in zip(env.actors, snaps):
                    for inv, detail in compare(sn, A):
                        V("object_state_after_fault", "after a peer failed inside the backward pass: %s: %s" % (inv, detail))
            else:
                cnt("fault_not_reached")
        stack = _cl.ExitStack()
        if sc.get("bwd_under_subst") and env.actors and not cg:
            # the objects hold other tensors now than during the forward pass (a caller-opened substitution,
            # as every enclosing functional's backward pass does): the gradient must still be the one at the
            # forward tensors
            from xitorch._core.pure_function import get_pure_function
            for A in env.actors:
                pfA = get_pure_function(A.logp16)
                stack.enter_context(pfA.useobjparams([(p.detach() * 1.7 + 0.3).requires_grad_() for p in pfA.objparams()]))
            cnt("reach.backward_under_other_substitution")
        with warnings.catch_warnings():
            warnings.simplefilter("ignore")
            with rec, stack:
                try:
                    if rf.requires_grad:
                        gx = torch.autograd.grad((rf * w).sum(), leaves, allow_unused=True, create_graph=cg,
                                                 retain_graph=True)
                except Exception as e:
                    V("backward_raises", "backward raised %s: %s" % (type(e).__name__, str(e)[:300]),
                      unused_z=str(sc["zkind"] == "tensor_grad"))
        if ref.requires_grad and not rf.requires_grad:
            V("not_differentiable", "the result does not require grad although parameters do")
        if gx is not None:
            if ref.requires_grad:
                gr = torch.autograd.grad((ref * w).sum(), leaves, allow_unused=True, create_graph=cg, retain_graph=True)
            else:       # only tensors that enter neither function require grad
                gr = [None] * len(leaves)
            judge_grads(gx, gr, leaves, GTOL, "gradient_first_order", V, env)
            cnt("reach.gradient_judged")
            # the backward pass works on the stored samples: no new points, no RNG draws
            newp = [x for (nm, x, ph) in rec.events[nfwd:] if x is not None and
                    not any(same(x, s) for s in S) and not same(x, env.x0)]
            if newp:
                V("backward_resamples", "the backward pass evaluated f / log p / the step at %d points that are not "
                  "among the forward samples" % len(newp))
            if len(rec.randn) + len(rec.rand) != nrand_fwd:
                V("backward_resamples", "the backward pass drew %d new random tensors" %
                  (len(rec.randn) + len(rec.rand) - nrand_fwd))
            if cg:
                def sq(gs):
                    t = [(a * a).sum() for a in gs if a is not None and a.requires_grad]
                    return sum(t) if t else None
                lx, lr = sq(gx), sq(gr)
                if lr is not None and lx is None:
                    V("gradient_second_order", "first-order gradients carry no graph although the reference does")
                elif lr is not None:
                    rec.phase = "bwd2"
                    g2x = None
                    with warnings.catch_warnings():
                        warnings.simplefilter("ignore")
                        with rec:
                            try:
                                g2x = torch.autograd.grad(lx, leaves, allow_unused=True, retain_graph=True)
                            except Exception as e:
                                V("backward_raises", "second backward raised %s: %s" % (type(e).__name__, str(e)[:300]),
                                  unused_z=str(sc["zkind"] == "tensor_grad"))
                    if g2x is not None:
                        g2r = torch.autograd.grad(lr, leaves, allow_unused=True, retain_graph=True)
                        judge_grads(g2x, g2r, leaves, GTOL * 10, "gradient_second_order", V, env)
                        cnt("reach.second_order_judged")
    if sc.get("nograd_debug"):
        from xitorch.debug.modes import enable_debug
        cnt("reach.no_grad_with_debug_mode")
        try:
            with warnings.catch_warnings():
                warnings.simplefilter("ignore")
                with enable_debug(), torch.no_grad():
                    r2 = flat(call_mcquad(env, sc, fk)).detach()
            if r2.shape != rf.shape or not torch.allclose(r2, rf.detach(), rtol=1e-12, atol=1e-12):
                V("value", "the same call under torch.no_grad() with debug mode on gives a different value")
        except Exception as e:
            V("forward_raises", "mcquad under torch.no_grad() with debug mode on raised %s: %s" %
              (type(e).__name__, str(e)[:200]))
    # ---- the user's objects are untouched (C10's I1, cheap to keep here)
    for A, sn in zip(env.actors, snaps):
        for inv, detail in compare(sn, A):
            V("object_state", "%s: %s" % (inv, detail))
    return finish(sc, viol, stats, decoded, batch, len(rec.events), rec)


def judge_grads(gx, gr, leaves, tol, inv, V, env):
    for i, (a, b) in enumerate(zip(gx, gr)):
        if a is None and b is None:
            continue
        a_ = torch.zeros_like(leaves[i]) if a is None else a.detach()
        b_ = torch.zeros_like(leaves[i]) if b is None else b.detach()
        scale = max(1.0, float(b_.abs().max()))
        errv = float((a_ - b_).abs().max())
        if not errv <= tol * scale * 10:
            who = "z (enters neither function)" if leaves[i] is env.z else "installed tensor #%d of shape %s" % (
                i, tuple(leaves[i].shape))
            V(inv, "gradient w.r.t. %s differs from the reference on the same samples: max abs err %.3e (scale %.1e)" %
              (who, errv, scale))


def judge_mh(sc, env, rec, S, pev, lp, V, cnt, batch):
    n, nb, step = sc["nsamples"], sc["nburnout"], sc["step"]
    if not pev or not same(pev[0], env.x0):
        V("chain_start", "the first evaluation of log p is not at x0")
        return
    # proposals = log p evaluations at points not seen before
    seen = [env.x0]
    props = []
    for x in pev[1:]:
        if any(same(x, y) for y in seen):
            cnt("mh_reevaluations")
            continue
        seen.append(x)
        props.append(x)
    if len(props) != nb + n:
        V("proposal_count", "%d proposals were made (new points at which log p was evaluated); nburnout + nsamples = %d"
          % (len(props), nb + n))
        return
    # ---- sampling phase: state after step i is S[i]; it is the previous state or the proposal of that step
    # burn-in phase: reconstruct accept/reject from the recorded normal draws when they are available
    noise = [r for (r, ph) in rec.randn if ph == "fwd"]
    have_noise = len(noise) == nb + n and all(z.shape == env.x0.shape for z in noise)
    if not have_noise:
        cnt("rng_draws_not_observed")
    if have_noise:
        # follow the whole chain, burn-in included
        state = env.x0
        for k, y in enumerate(props):
            origin = y - step * noise[k]
            if not torch.allclose(origin, state, rtol=1e-12, atol=1e-12):
                V("chain_continuity", "proposal #%d is not (current state + step_size * normal draw): off by %.3e" %
                  (k, float((origin - state).abs().max())))
                return
            d = float(lp(y) - lp(state))
            if k >= nb:
                i = k - nb
                acc = same(S[i], y)
                if not acc and not same(S[i], state):
                    V("sample_chain", "sample #%d is neither the previous state nor the proposal of its step" % i)
                    return
            else:
                nxt_origin = props[k + 1] - step * noise[k + 1]
                if torch.allclose(nxt_origin, y, rtol=1e-12, atol=1e-12):
                    acc = True
                elif torch.allclose(nxt_origin, state, rtol=1e-12, atol=1e-12):
                    acc = False
                else:
                    V("chain_continuity", "after burn-in step #%d the chain continues from neither the proposal nor "
                      "the previous state" % k)
                    return
            tally(d, acc, k, V, cnt, batch)
            if acc:
                state = y
    else:
        # only the sampling phase can be followed: state after step i is S[i]
        for i in range(1, n):
            y = props[nb + i]
            state = S[i - 1]
            acc = same(S[i], y)
            if not acc and not same(S[i], state):
                V("sample_chain", "sample #%d is neither the previous sample nor the proposal of its step" % i)
                return
            tally(float(lp(y) - lp(state)), acc, nb + i, V, cnt, batch)
    if nb > 0:
        cnt("reach.mh_burn_in")


def tally(d, acc, k, V, cnt, batch):
    if d == float("-inf"):
        cnt("reach.mh_proposal_outside_support")
        if acc:
            V("outside_support_accepted", "a proposal with log p = -inf was accepted at step #%d" % k)
        return
    if d > 0:
        cnt("reach.mh_uphill")
        if not acc:
            V("uphill_rejected", "an uphill proposal (delta log p = %.3e) was rejected at step #%d" % (d, k))
    elif d < 0:
        batch["downhill"].append((d, bool(acc)))
        cnt("reach.mh_downhill")
        if not acc:
            cnt("reach.mh_rejection")


def finish(sc, viol, stats, decoded, batch, events, rec):
    cases = []
    nontriv = events >= 3 and (sc["usage"] in ("bwd", "bwd2") or sc["nburnout"] > 0)
    if nontriv and not viol:
        cases.append("|".join(str(x) for x in (sc["sampler"], sc["nsamples"], sc["nburnout"], sc["d"], sc["fkind"],
                                                sc["fhold"], sc["phold"], sc["usage"])))
    stats["fault.rng_stream"] = stats.get("fault.rng_stream", 0) + 1
    stats["sampler." + sc["sampler"]] = 1
    stats["usage." + sc["usage"]] = 1
    decoded["rng_draws"] = {"randn_like": len(rec.randn), "rand": len(rec.rand)}
    dig = SIM.digest()
    import hashlib
    h = hashlib.sha256()
    h.update(dig.encode())
    for (nm, x, ph) in rec.events:
        h.update(nm.encode())
        h.update(ph.encode())
        if x is not None:
            h.update(x.numpy().tobytes())
    return {"violations": viol, "stats": stats, "cases": cases, "decoded": decoded, "digest": h.hexdigest(),
            "evals": 1, "events": events, "batch": batch}


# ------------------------------------------------------ batch-level (statistical)
def batch_check(results, cfg):
    """downhill acceptance frequency of mh over the whole (fixed) seed set must match the mean of exp(delta log p)"""
    ds = []
    for r in results:
        ds.extend(r.get("batch", {}).get("downhill", []))
    out = []
    if len(ds) >= 200:
        p = [math.exp(d) for d, _ in ds]
        acc = sum(1 for _, a in ds if a)
        mean = sum(p)
        var = sum(q * (1 - q) for q in p)
        sd = math.sqrt(max(var, 1e-12))
        if abs(acc - mean) > 6 * sd:
            out.append({"sig": {"inv": "mh_acceptance_frequency", "sampler": "mh", "usage": "batch"},
                        "detail": "over %d downhill proposals %d were accepted; the Metropolis rule predicts %.1f +- %.1f "
                                  "(6 sigma = %.1f)" % (len(ds), acc, mean, sd, 6 * sd)})
    return out


def evidence_extra(results, cfg):
    ds = []
    for r in results:
        ds.extend(r.get("batch", {}).get("downhill", []))
    if not ds:
        return {"mh_downhill_proposals": 0}
    p = [math.exp(d) for d, _ in ds]
    return {"mh_downhill_proposals": len(ds), "mh_downhill_accepted": sum(1 for _, a in ds if a),
            "mh_downhill_expected": round(sum(p), 2),
            "mh_downhill_sigma": round(math.sqrt(sum(q * (1 - q) for q in p)), 2)}
