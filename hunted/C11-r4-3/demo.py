"""
C11 / finding 3: for an operator defined from its matrix-vector product alone,
rmv / rmm / .H are computed with the autograd adjoint trick.  When the user's
product is not recorded by autograd (it runs under torch.no_grad(), or goes
through numpy / scipy.sparse), the library now takes the operator for "the zero
operator" and silently returns zeros for every adjoint product, while mv, mm
and fullmatrix describe a non-zero matrix.  (Before the zero-operator repair
this case raised an error.)
"""
import sys
import numpy as np
import scipy.sparse as sp
import torch
import xitorch
from xitorch import LinearOperator

torch.manual_seed(0)
dt = torch.float64

class NoGradOp(LinearOperator):
    # an inference-only operator: the product is evaluated without recording a graph
    def __init__(self, A):
        super().__init__(shape=A.shape, dtype=A.dtype)
        self.A = A

    @torch.no_grad()
    def _mv(self, x):
        return torch.matmul(self.A, x.unsqueeze(-1)).squeeze(-1)

    def _getparamnames(self, prefix=""):
        return [prefix + "A"]

class SparseOp(LinearOperator):
    # wraps a scipy sparse matrix
    def __init__(self, S):
        super().__init__(shape=S.shape, dtype=dt)
        self.S = S

    def _mv(self, x):
        xn = x.detach().numpy().reshape(-1, x.shape[-1]).T          # (q, nbatch)
        yn = np.asarray(self.S @ xn).T                              # (nbatch, p)
        return torch.as_tensor(yn).reshape(*x.shape[:-1], self.S.shape[0])

    def _getparamnames(self, prefix=""):
        return []

A = torch.randn(4, 3, dtype=dt)
S = sp.random(4, 3, density=0.7, random_state=0, format="csr", dtype=np.float64)
ops = [("no_grad product", NoGradOp(A), A),
       ("scipy.sparse product", SparseOp(S), torch.as_tensor(S.toarray()))]

y = torch.randn(4, dtype=dt)
Y = torch.randn(4, 2, dtype=dt)
problems = []
for name, op, M in ops:
    # the forward products are fine and describe M
    assert torch.allclose(op.fullmatrix(), M)
    assert torch.allclose(op.mm(torch.eye(3, dtype=dt)), M)
    MH = M.transpose(-2, -1).conj()
    for pname, fcn, expected in [
            ("rmv", lambda: op.rmv(y), MH @ y),
            ("rmm", lambda: op.rmm(Y), MH @ Y),
            ("H.fullmatrix", lambda: op.H.fullmatrix(), MH),
            ("(op.H @ op).fullmatrix", lambda: op.H.matmul(op).fullmatrix(), MH @ M)]:
        try:
            got = fcn()
        except Exception as e:
            # an adjoint product that cannot be formed must be rejected: fine
            print("%s / %s raised %s (acceptable)" % (name, pname, type(e).__name__))
            continue
        err = (got - expected).abs().max().item()
        if err > 1e-9:
            problems.append("%s: %s silently returns %s (max |.| = %.1e) instead of the conjugate-transposed "
                            "product (error %.3e)" % (name, pname, "zeros" if not got.any() else "wrong values",
                                                      got.abs().max().item(), err))

if problems:
    for p in problems:
        print("VIOLATION:", p)
    sys.exit(1)
print("ok")
sys.exit(0)
