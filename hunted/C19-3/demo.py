"""
C19 violation 3: in debug mode (xitorch.enable_debug / set_debug_mode) every functional
first runs EditableModule.assertparams.  Its private __list_operating_params replaces
*every* float tensor reachable from the object by a detached clone
(_set_tensors(self, copy_tensors), editable_module.py L341) BEFORE entering the
try/finally that puts the originals back.  _set_tensors writes with objdict[key] = ...,
which raises TypeError for a tensor held in a tuple (or any other read-only container).
The call then fails half-way: the tensors visited before the tuple have already been
replaced, and nothing restores them.  After the failed call the long-lived module holds
clones that were allocated during the call (and has silently lost the connection to
the user's parameters).
"""
import gc
import io
import sys
import contextlib
import warnings
import torch
import xitorch
from xitorch import EditableModule
from xitorch.optimize import rootfinder

warnings.simplefilter("ignore")
dt = torch.float64
n = 8

def live_tensor_ids():
    return set(id(o) for o in gc.get_objects() if isinstance(o, torch.Tensor))

class Model(EditableModule):
    def __init__(self, a, b, lo, hi):
        self.a = a
        self.b = b
        self.bounds = (lo, hi)          # two constant tensors kept in a tuple
    def forward(self, y):
        y = torch.maximum(torch.minimum(y, self.bounds[1]), self.bounds[0])
        return self.a * y ** 3 - self.b + y
    def getparamnames(self, methodname, prefix=""):
        return [prefix + "a", prefix + "b"]

a = torch.linspace(0.7, 2.0, n, dtype=dt).requires_grad_()
b = torch.ones(n, dtype=dt).requires_grad_()
model = Model(a, b, torch.full((n,), -10.0, dtype=dt), torch.full((n,), 10.0, dtype=dt))
y0 = torch.ones(n, dtype=dt)

# without debug mode the model is perfectly usable
y = rootfinder(model.forward, y0)
g = torch.autograd.grad(y.sum(), (a, b))
del y, g
print("normal mode: rootfinder + backward work; model.a is a:", model.a is a)

gc.collect()
gc.disable()
base = live_tensor_ids()
err = None
with xitorch.enable_debug(), contextlib.redirect_stdout(io.StringIO()):
    try:
        y = rootfinder(model.forward, y0)
        del y
    except Exception as e:          # the debug check fails on the tuple
        err = "%s: %s" % (type(e).__name__, e)
left = live_tensor_ids() - base
gc.collect()
left_after_gc = live_tensor_ids() - base
gc.enable()

print("debug mode call raised:", err)
print("tensors allocated during the call that are still alive: %d (after gc.collect(): %d)"
      % (len(left), len(left_after_gc)))
print("model.a is a: %s, model.b is b: %s" % (model.a is a, model.b is b))
held = [name for name in ("a", "b") if id(getattr(model, name)) in left_after_gc]
print("attributes of the model now holding a tensor created during the call:", held)

if len(left_after_gc) > 0:
    print("FAIL: the call is over (it raised) and all its results are dropped, but %d tensor(s) "
          "allocated during the call remain reachable from the long-lived module: %s"
          % (len(left_after_gc), held))
    sys.exit(1)
print("PASS")
sys.exit(0)
