"""
C16 / finding 2: a tensor parameter that does NOT require grad (here the inverse
temperature `beta` given in pparams, and a scale `s` given in fparams) is kept by
mcquad by reference only.  If the caller updates it in place between the forward
call and the backward pass (two expectations are accumulated, one backward at
the end), the backward pass silently evaluates f, log p at the NEW value while
it uses the expectation <f> of the OLD value: the gradient is neither the mean
of df nor the covariance estimator on the samples of the forward pass.

The same edit on a parameter that requires grad is detected ("modified by an
inplace operation"), like torch itself does for the explicit sample mean.

exit 1: silently wrong gradient, exit 0: right gradient or an error is raised
"""
import sys
import torch
from xitorch.integrate import mcquad

torch.manual_seed(0)
torch.set_default_dtype(torch.float64)

NSAMPLES, NBURNOUT = 7, 3

def step(x, *pparams):
    return torch.sin(3.0 * x + 1.0) * 1.5

def explicit_samples(x0):
    x = x0
    for _ in range(NBURNOUT):
        x = step(x)
    xs = [x]
    for _ in range(NSAMPLES - 1):
        x = step(x)
        xs.append(x)
    return xs

def f(x, a, s):
    return (a * x ** 2).sum() * s

def logp(x, c, beta):
    return -beta * (c * x ** 2).sum()

x0 = torch.tensor([0.3, -0.2])
a = torch.tensor([1.2, 0.7], requires_grad=True)
c = torch.tensor([0.9, 1.1], requires_grad=True)
opts = dict(method="mhcustom", nsamples=NSAMPLES, nburnout=NBURNOUT, custom_step=step)
xs = explicit_samples(x0)
BETAS = [1.0, 0.5]

# ---- reference: mean of df and covariance estimator on the same samples, per stage
def stage_ref(beta, s):
    fs = [f(x, a, s) for x in xs]
    mean_f = sum(fs) / len(fs)
    dfa, = torch.autograd.grad(mean_f, a)
    dc = torch.zeros_like(c)
    for x, fx in zip(xs, fs):
        dlogp, = torch.autograd.grad(logp(x, c, beta), c)
        dc = dc + (fx - mean_f).detach() * dlogp / len(xs)
    return mean_f.detach(), dfa, dc

ref_val, ref_da, ref_dc = 0.0, 0.0, 0.0
for b in BETAS:
    v, da, dc = stage_ref(torch.tensor(b), torch.tensor(2.0 * b))
    ref_val, ref_da, ref_dc = ref_val + v, ref_da + da, ref_dc + dc

# ---- the library: the schedule tensors are updated in place between the stages
beta = torch.tensor(BETAS[0])        # does not require grad
s = torch.tensor(2.0 * BETAS[0])     # does not require grad
total = 0.0
for k in range(len(BETAS)):
    total = total + mcquad(f, logp, x0, fparams=(a, s), pparams=(c, beta), **opts)
    beta.mul_(0.5)                   # annealing step, in place
    s.mul_(0.5)

if not torch.allclose(total, ref_val, atol=1e-12):
    print("value differs from the explicit sample means: %r vs %r" % (total.item(), ref_val.item()))
    sys.exit(1)
print("value equals the sum of the explicit sample means: %.8f" % total.item())

try:
    ga, gc = torch.autograd.grad(total, (a, c))
except RuntimeError as e:
    print("backward refused (acceptable):", str(e).split("\n")[0][:100])
    sys.exit(0)

ok_a = torch.allclose(ga, ref_da, atol=1e-10)
ok_c = torch.allclose(gc, ref_dc, atol=1e-10)
print("d/da: got %s, mean of df on the forward samples %s" % (ga.tolist(), ref_da.tolist()))
print("d/dc: got %s, covariance estimator on the forward samples %s" % (gc.tolist(), ref_dc.tolist()))

# control: the same history on a tensor that requires grad is detected
a2 = a.detach().clone().requires_grad_()
r = mcquad(f, logp, x0, fparams=(a2, torch.tensor(2.0)), pparams=(c, torch.tensor(1.0)), **opts)
with torch.no_grad():
    a2.mul_(0.5)
try:
    torch.autograd.grad(r, (a2, c))
    print("control: edit of a tensor requiring grad NOT detected")
except RuntimeError as e:
    print("control: edit of a tensor requiring grad is detected:", str(e)[:75])

if ok_a and ok_c:
    print("ok")
    sys.exit(0)
print("VIOLATION: the value returned is the one of the forward tensors, its gradient is silently "
      "computed with tensors edited afterwards (no error raised)")
sys.exit(1)
