"""
C11 / 3: LinearOperator.m decides Hermiticity with ONE absolute tolerance taken from the
largest entry of the whole (batched) tensor (atol = 1e-8 * max|mat|).  A batch (or a
block matrix) that contains one large symmetric part and one O(1) clearly non-symmetric
part is flagged Hermitian; rmv / rmm / .H then apply A instead of A^H, and
is_hermitian=True is accepted for it.
(The tolerance rule was introduced by the repair of the "entries below 1e-8" finding;
the unrepaired library got the inputs below right.)
"""
import sys
import torch
from xitorch import LinearOperator

dt = torch.float64
bad = False

# (a) a batch of two 2x2 matrices: a large symmetric one and a small NON-symmetric one
big = 1e9 * torch.eye(2, dtype=dt)
small = torch.tensor([[0., 1.], [0., 0.]], dtype=dt)      # strictly upper triangular
mat = torch.stack([big, small])                          # (2,2,2)
A = LinearOperator.m(mat)
print("(a) batched: is_hermitian =", A.is_hermitian)
x = torch.tensor([1., 0.], dtype=dt)
got = A.rmv(x)[1]
ref = small.T @ x
print("    rmv on batch element 1: got", got.tolist(), " expected A^H x =", ref.tolist())
print("    A.H.fullmatrix()[1] =", A.H.fullmatrix()[1].tolist(), " expected", small.T.tolist())
if not torch.allclose(got, ref) or not torch.allclose(A.H.fullmatrix(), mat.transpose(-2, -1)):
    bad = True
# each element on its own is classified correctly
print("    alone: big ->", LinearOperator.m(big).is_hermitian, ", small ->", LinearOperator.m(small).is_hermitian)

# (b) one block-diagonal matrix: large 1x1 block + skew-symmetric 2x2 block
blk = torch.tensor([[1e9, 0., 0.],
                    [0., 0., 1.],
                    [0., -1., 0.]], dtype=dt)
Bop = LinearOperator.m(blk)
e1 = torch.tensor([0., 1., 0.], dtype=dt)
print("(b) block matrix: is_hermitian =", Bop.is_hermitian)
print("    rmv(e1) =", Bop.rmv(e1).tolist(), " expected", (blk.T @ e1).tolist())
if not torch.allclose(Bop.rmv(e1), blk.T @ e1):
    bad = True
if not torch.allclose(Bop.rmm(torch.eye(3, dtype=dt)), blk.T):
    bad = True

# (c) the Hermiticity violation is not rejected either
try:
    LinearOperator.m(blk, is_hermitian=True)
    print("(c) LinearOperator.m(blk, is_hermitian=True): accepted (should raise)")
    bad = True
except RuntimeError as e:
    print("(c) rejected:", e)

if bad:
    print("FAIL: a non-Hermitian (batched / multi-scale) matrix is treated as Hermitian: "
          "rmv/rmm/.H apply A instead of A^H")
    sys.exit(1)
print("PASS")
sys.exit(0)
