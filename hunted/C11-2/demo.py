"""
C11 violation 2: A + B and A - B are rejected ("Mismatch shape") although both
operators have the same shape, when one of them was constructed with its shape
given as a list (a legal Sequence[int]) and the other as tuple / torch.Size.
matmul, .H and scalar * work with the very same operators.
"""
import sys
import warnings
import torch
from xitorch import LinearOperator

warnings.simplefilter("ignore")
torch.manual_seed(0)
dt = torch.float64

class MyOp(LinearOperator):
    # user-defined operator from a matrix-vector product alone
    def __init__(self, mat, shape):
        super().__init__(shape=shape, dtype=mat.dtype, device=mat.device)
        self.mat = mat

    def _mv(self, x):
        return torch.matmul(self.mat, x.unsqueeze(-1)).squeeze(-1)

    def _getparamnames(self, prefix=""):
        return [prefix + "mat"]

m1 = torch.randn(3, 3, dtype=dt)
m2 = torch.randn(3, 3, dtype=dt)
A = MyOp(m1, shape=[3, 3])           # shape: Sequence[int]  -> list is legal
B = LinearOperator.m(m2)             # shape is torch.Size
C = MyOp(m2, shape=(3, 3))           # tuple
print("A.shape =", A.shape, " B.shape =", B.shape, " C.shape =", C.shape)

fails = []
cases = [
    ("A.matmul(B)", lambda: A.matmul(B), m1 @ m2),
    ("A.H", lambda: A.H, m1.transpose(-2, -1)),
    ("2 * A", lambda: 2 * A, 2 * m1),
    ("A + B", lambda: A + B, m1 + m2),
    ("B + A", lambda: B + A, m2 + m1),
    ("A - B", lambda: A - B, m1 - m2),
    ("A + C", lambda: A + C, m1 + m2),
    ("C - A", lambda: C - A, m2 - m1),
]
for name, build, ref in cases:
    try:
        op = build()
        ok = torch.allclose(op.fullmatrix(), ref)
        print("  %-12s built, fullmatrix %s" % (name, "ok" if ok else "WRONG"))
        if not ok:
            fails.append(name)
    except Exception as e:
        print("  %-12s raised %s: %s" % (name, type(e).__name__, e))
        fails.append(name)

if fails:
    print("FAIL: valid operator expressions with equal shapes were rejected / wrong:", fails)
    sys.exit(1)
print("PASS")
sys.exit(0)
