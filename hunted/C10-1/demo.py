"""
C10 violation 1: in debug mode, a functional called with a method of an
EditableModule that also holds float tensors in an immutable container
(tuple / namedtuple / frozenset ...) raises TypeError and leaves the module
holding detached clones instead of its own tensors.

run: cd /tmp/wt4_C10 && PYTHONPATH=/tmp/wt4_C10 /venv/bin/python demo.py
"""
import sys
import io
import contextlib
import torch
import xitorch
from xitorch.optimize import rootfinder
from xitorch.integrate import quad, solve_ivp

dt = torch.float64

class Model(xitorch.EditableModule):
    def __init__(self, container):
        self.a = torch.tensor([1.0, 2.0], dtype=dt, requires_grad=True)
        self.b = self.a * 3.0                       # non-leaf tensor, depends on a
        # constants of the model that no differentiated method depends on,
        # kept in an immutable container (perfectly ordinary python)
        self.bounds = container([torch.tensor(0.0, dtype=dt), torch.tensor(1.0, dtype=dt)])
        self.c = torch.tensor([0.5, 0.5], dtype=dt, requires_grad=True)

    def f(self, y):                                 # for rootfinder
        return y * self.b - self.c

    def g(self, x):                                 # for quad
        return (self.b * x - self.c)

    def h(self, t, y):                              # for solve_ivp
        return -y * self.b + self.c

    def getparamnames(self, methodname, prefix=""):
        return [prefix + "b", prefix + "c"]

def state(m):
    return {k: (id(v), v.requires_grad, v.grad_fn is not None)
            for k, v in m.__dict__.items() if isinstance(v, torch.Tensor)}

def trial(label, container, call):
    m = Model(container)
    keep = dict(m.__dict__)          # keeps the original tensors alive (ids stay meaningful)
    before = state(m)
    flag_before = xitorch.is_debug_enabled()
    exc = None
    try:
        with xitorch.enable_debug(), contextlib.redirect_stdout(io.StringIO()):
            call(m)
    except Exception as e:           # the property covers failing calls as well
        exc = e
    after = state(m)
    flag_after = xitorch.is_debug_enabled()
    changed = [k for k in before if before[k] != after[k]]
    print("[%s] exception: %s" % (label, "none" if exc is None else "%s: %s" % (type(exc).__name__, exc)))
    print("[%s] debug flag before/after: %s/%s" % (label, flag_before, flag_after))
    for k in before:
        print("[%s]   %-2s same object: %-5s (id, requires_grad, has grad_fn) before=%s after=%s"
              % (label, k, before[k][0] == after[k][0], before[k], after[k]))
    del keep
    return changed or (flag_before != flag_after)

y0 = torch.zeros(2, dtype=dt)
ts = torch.linspace(0, 1, 3, dtype=dt)
calls = {
    "rootfinder": lambda m: rootfinder(m.f, y0),
    "quad": lambda m: quad(m.g, torch.tensor(0.0, dtype=dt), torch.tensor(1.0, dtype=dt)),
    "solve_ivp": lambda m: solve_ivp(m.h, ts, y0 + 1.0),
}

# control: the same model with the constants in a list is handled correctly
ctrl_bad = trial("control/list/rootfinder", list, calls["rootfinder"])

bad = []
for name, call in calls.items():
    if trial("tuple/" + name, tuple, call):
        bad.append(name)

if ctrl_bad:
    print("FAIL: even the control (list container) left the module modified")
    sys.exit(1)
if bad:
    print("FAIL: after the (failing) debug-mode call of %s the EditableModule does not hold its "
          "own tensors any more: attributes visited before the tuple were replaced by detached "
          "leaf clones and never put back" % ", ".join(bad))
    sys.exit(1)
print("PASS")
sys.exit(0)
