"""C20 violation 5: an attribute-bearing object that deepcopy treats as atomic
(here: a plain Python function carrying a tensor attribute). Packer lists its
tensor, and construct_from_tensor_list writes the new tensor INTO THE ORIGINAL
object (and into the Packer's own stored structure)."""
import sys
import torch
from xitorch import Packer

def model(x):
    return x * model.scale
model.scale = torch.tensor(2.)          # tensor held as an attribute of the object

w = torch.tensor([1., 2.])
scale0 = model.scale
obj = {"f": model, "w": w}

packer = Packer(obj)
lst = packer.get_param_tensor_list()
print("listed:", lst)

problems = []
if any(t is scale0 for t in lst):
    new = [torch.tensor(100.) if t is scale0 else torch.zeros_like(t) for t in lst]
    o1 = packer.construct_from_tensor_list(new)
    print("original obj['f'].scale after the call:", obj["f"].scale)
    if obj["f"].scale is not scale0:
        problems.append("the ORIGINAL object was modified: obj['f'].scale was tensor(2.) "
                        "and is now %s" % (obj["f"].scale,))
    # the Packer itself is changed as well: an earlier result changes when a later one is built
    new2 = [torch.tensor(-1.) if t is scale0 else torch.zeros_like(t) for t in lst]
    before = o1["f"].scale
    o2 = packer.construct_from_tensor_list(new2)
    if o1["f"].scale is not before:
        problems.append("a second rebuild changed the structure returned by the first one "
                        "(o1['f'].scale went from %s to %s)" % (before, o1["f"].scale))
    model.scale = scale0
else:
    # the tensor is not listed: then it must simply be left alone
    o1 = packer.construct_from_tensor_list([torch.zeros_like(t) for t in lst])
    if obj["f"].scale is not scale0:
        problems.append("original modified")

if problems:
    print("FAIL:")
    for p in problems:
        print("  -", p)
    sys.exit(1)
print("PASS")
sys.exit(0)
