"""
C10 violation 2: LinearOperator.uselinopparams restores one tensor per *cached*
group of names.  The grouping (which names share a tensor) is computed once, at
the first functional call on the operator, and never refreshed.  If two names
shared a tensor then and hold different tensors now, every later solve / symeig
call (forward or backward) overwrites the second name with the tensor of the
first one and leaves the operator like that.

run: cd /tmp/wt4_C10 && PYTHONPATH=/tmp/wt4_C10 /venv/bin/python demo.py
"""
import sys
import torch
import xitorch
from xitorch.linalg import solve, symeig

dt = torch.float64

class DiagSum(xitorch.LinearOperator):
    """x -> (d1 + d2) * x, a hermitian operator with two parameter tensors"""
    def __init__(self, d1, d2):
        super().__init__(shape=(6, 6), is_hermitian=True, dtype=dt)
        self.d1 = d1
        self.d2 = d2

    def _mv(self, x):
        return x * self.d1 + x * self.d2

    def _getparamnames(self, prefix=""):
        return [prefix + "d1", prefix + "d2"]

class Net(torch.nn.Module):
    def __init__(self):
        super().__init__()
        self.w1 = torch.nn.Parameter(torch.rand(6, dtype=dt) + 1)
        self.w2 = self.w1                      # weight tying

class NetOp(xitorch.LinearOperator):
    def __init__(self, net):
        super().__init__(shape=(6, 6), is_hermitian=True, dtype=dt)
        self.net = net

    def _mv(self, x):
        return x * self.net.w1 + x * self.net.w2

    def _getparamnames(self, prefix=""):
        return [prefix + "net.w1", prefix + "net.w2"]

torch.manual_seed(0)
B = torch.rand(6, 1, dtype=dt)
fail = []

# ---------------------------------------------------------------- scenario A
d = (torch.rand(6, dtype=dt) + 1).requires_grad_()
e = (torch.rand(6, dtype=dt) + 2).requires_grad_()

# control: an operator that never had shared tensors is left alone
C = DiagSum(d, e)
solve(C, B, method="cg").sum().backward()
print("control  : d1 is d: %s, d2 is e: %s" % (C.d1 is d, C.d2 is e))
if not (C.d1 is d and C.d2 is e):
    fail.append("control operator modified")

A = DiagSum(d, d)                      # one tensor under two names (legal)
x = solve(A, B, method="cg")           # first functional call on A
x.sum().backward()
print("call 1   : d1 is d: %s, d2 is d: %s" % (A.d1 is d, A.d2 is d))

A.d2 = e                               # the user gives the second name its own tensor
print("untied   : d1 is d: %s, d2 is e: %s" % (A.d1 is d, A.d2 is e))

x = solve(A, B, method="cg")           # an ordinary, successful call (forward only)
expected = B / (d + e).unsqueeze(-1)
print("call 2   : d1 is d: %s, d2 is e: %s, d2 is d: %s" % (A.d1 is d, A.d2 is e, A.d2 is d))
print("           result is the solution of the operator the user holds: %s"
      % torch.allclose(x, expected))
if A.d2 is not e:
    fail.append("solve() replaced A.d2 (the user's tensor e) by A.d1")

# same for symeig
A2 = DiagSum(d, d)
symeig(A2, neig=2, method="davidson")
A2.d2 = e
symeig(A2, neig=2, method="davidson")
print("symeig   : d2 is e: %s" % (A2.d2 is e))
if A2.d2 is not e:
    fail.append("symeig() replaced A2.d2 by A2.d1")

# ---------------------------------------------------------------- scenario B
# the parameters live in a torch.nn.Module: registration is lost as well
net = Net()
op = NetOp(net)
solve(op, B, method="cg").sum().backward()
net.w2 = torch.nn.Parameter(torch.rand(6, dtype=dt) + 2)     # untie the weights
w1, w2 = net.w1, net.w2
before = [(n, id(p)) for n, p in net.named_parameters()]
solve(op, B, method="cg")
after = [(n, id(p)) for n, p in net.named_parameters()]
print("nn.Module: named_parameters before: %s" % [n for n, _ in before])
print("           named_parameters after : %s" % [n for n, _ in after])
print("           w1 same: %s, w2 same: %s, w2 is w1: %s" % (net.w1 is w1, net.w2 is w2, net.w2 is net.w1))
if before != after or net.w2 is not w2:
    fail.append("solve() re-tied the Parameters of the nn.Module (w2 dropped from named_parameters)")

if fail:
    print("FAIL: " + "; ".join(fail))
    sys.exit(1)
print("PASS")
sys.exit(0)
