"""
C17 / finding 3: transposed products of a Jacobian with ZERO ROWS (empty output) raise.

A function may legitimately return an empty tensor for the current point, e.g. a
data dependent selection `(x ** 2)[x > threshold]` that selects nothing.  jac() builds
the operator with the right shape (0, 3); mv, mm and fullmatrix work (they return empty
results), but rmv, rmm, .H.mv, .H.mm and .H.fullmatrix raise

    RuntimeError: cannot reshape tensor of 0 elements into shape [-1, 0] ...

instead of returning zeros of shape (..., 3) / a (3, 0) matrix.
(The mirrored case - an empty differentiated argument, operator shape (n, 0) - fails in
the same statement of _mv.)
"""
import sys
import torch
from xitorch.grad import jac

torch.manual_seed(0)
dt = torch.float64


def f(x):
    # the entries of x**2 that exceed a threshold; none does at this point
    return (x ** 2)[x > 100.0]


def main():
    failures = []
    x = torch.randn(3, dtype=dt, requires_grad=True)
    # dense reference: a matrix with no rows (torch.autograd.functional.jacobian itself
    # cannot stack zero rows, so the - unambiguous - empty matrix is written down directly)
    Jd = x.new_zeros((0, 3))
    print("dense Jacobian shape:", tuple(Jd.shape))

    J = jac(f, (x,), 0)
    print("operator shape      :", tuple(J.shape))
    if tuple(J.shape) != tuple(Jd.shape):
        failures.append("wrong operator shape %s" % (tuple(J.shape),))

    g = torch.randn(2, 3, dtype=dt)      # batch of 2 vectors in input space
    h = torch.randn(2, 0, dtype=dt)      # batch of 2 (empty) vectors in output space
    tests = [
        ("mv", lambda: J.mv(g), lambda: g @ Jd.T),                       # (2, 0)
        ("mm", lambda: J.mm(g.T), lambda: Jd @ g.T),                     # (0, 2)
        ("fullmatrix", lambda: J.fullmatrix(), lambda: Jd),              # (0, 3)
        ("rmv", lambda: J.rmv(h), lambda: h @ Jd),                       # (2, 3) zeros
        ("rmv (single vector)", lambda: J.rmv(h[0]), lambda: h[0] @ Jd),  # (3,) zeros
        ("rmm", lambda: J.rmm(h.T), lambda: Jd.T @ h.T),                 # (3, 2) zeros
        (".H.mv", lambda: J.H.mv(h), lambda: h @ Jd),
        (".H.fullmatrix", lambda: J.H.fullmatrix(), lambda: Jd.T),       # (3, 0)
    ]
    for name, got, ref in tests:
        b = ref()
        try:
            a = got()
            ok = a.shape == b.shape and torch.allclose(a, b)
            print("%-20s expected shape %-8s got %-8s %s" %
                  (name, tuple(b.shape), tuple(a.shape), "ok" if ok else "MISMATCH"))
            if not ok:
                failures.append("%s differs from the dense product" % name)
        except Exception as e:
            print("%-20s expected shape %-8s raised %s: %s" %
                  (name, tuple(b.shape), type(e).__name__, str(e)[:90]))
            failures.append("%s raised %s" % (name, type(e).__name__))

    # ---- mirrored case: the differentiated argument is empty, operator shape (3, 0)
    e = torch.zeros(0, dtype=dt, requires_grad=True)

    def f2(x, e):
        return torch.sin(x) * x.sum() + (e ** 2).sum()

    Jd2 = torch.autograd.functional.jacobian(lambda ee: f2(x, ee), e)   # torch: shape (3, 0)
    J2 = jac(f2, (x, e), 1)
    print("dense Jacobian shape w.r.t. the empty argument:", tuple(Jd2.shape), " operator:", tuple(J2.shape))
    g0 = torch.randn(2, 0, dtype=dt)
    for name, got, ref in [("mv  (n x 0 operator)", lambda: J2.mv(g0), lambda: g0 @ Jd2.T),
                           ("full (n x 0 operator)", lambda: J2.fullmatrix(), lambda: Jd2)]:
        b = ref()
        try:
            a = got()
            ok = a.shape == b.shape and torch.allclose(a, b)
            print("%-20s expected shape %-8s got %-8s %s" %
                  (name, tuple(b.shape), tuple(a.shape), "ok" if ok else "MISMATCH"))
            if not ok:
                failures.append("%s differs from the dense product" % name)
        except Exception as ex:
            print("%-20s expected shape %-8s raised %s: %s" %
                  (name, tuple(b.shape), type(ex).__name__, str(ex)[:90]))
            failures.append("%s raised %s" % (name, type(ex).__name__))

    if failures:
        print("FAIL: products with an empty Jacobian (0 x n transposed, n x 0 forward) are not "
              "available: " + "; ".join(failures))
        return 1
    print("PASS")
    return 0


if __name__ == "__main__":
    sys.exit(main())
