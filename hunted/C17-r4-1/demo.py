"""
C17 / finding 1: differentiating ONE product of a jac/hess operator breaks the operator.

Statement: "... their mv, rmv, mm, rmm, fullmatrix and .H products equal the corresponding
products with the dense Jacobian ...; the products are themselves differentiable with respect
to the point and the parameters".

History:  J = jac(f, (x,), 0)
          g = torch.autograd.grad(J.mv(v).sum(), x)      # promised: product differentiable w.r.t. the point
          J.rmv(w)                                       # a plain product afterwards -> RuntimeError
          torch.autograd.grad(J.mv(v2).sum(), x)         # differentiating a *new* product -> RuntimeError
Every product is a new tensor that is differentiated exactly once by this script; nothing of the
script's own graph is shared between the steps (f only closes over a constant matrix, x is a leaf).
"""
import sys
import torch
from xitorch.grad import jac, hess

torch.manual_seed(0)
dt = torch.double
A = torch.randn(4, 3, dtype=dt)           # constant, no grad

def f(x):
    return torch.tanh(A @ x)

def e(x):
    return torch.sin(A @ x).sum()

def dense_jac(x):
    return torch.autograd.functional.jacobian(f, x, create_graph=True)

def dense_hess(x):
    return torch.autograd.functional.hessian(e, x, create_graph=True)

problems = []

def attempt(label, fn, ref_fn):
    # fn() gives a value of the library, ref_fn() the dense reference (built on a fresh graph)
    try:
        val = fn()
    except Exception as exc:
        problems.append("%s: raised %s: %s" % (label, type(exc).__name__, str(exc).split(".")[0]))
        return
    ref = ref_fn()
    if val.shape != ref.shape or not torch.allclose(val, ref, atol=1e-10):
        problems.append("%s: wrong value" % label)

def run(opname, make_op, dense, nout):
    x = torch.randn(3, dtype=dt).requires_grad_()
    v, v2 = torch.randn(3, dtype=dt), torch.randn(3, dtype=dt)
    w = torch.randn(nout, dtype=dt)
    V = torch.randn(2, 3, 2, dtype=dt)

    op = make_op(x)
    # step 1: one product, differentiated once w.r.t. the point (this must work and does)
    attempt("%s step 1: d(mv)/dx" % opname,
            lambda: torch.autograd.grad(op.mv(v).sum(), x)[0],
            lambda: torch.autograd.grad((dense(x) @ v).sum(), x)[0])
    # step 2: further products of the same operator
    attempt("%s step 2: plain rmv after step 1" % opname,
            lambda: op.rmv(w), lambda: dense(x).T @ w)
    attempt("%s step 2: plain H.fullmatrix after step 1" % opname,
            lambda: op.H.fullmatrix(), lambda: dense(x).T)
    attempt("%s step 2: d(mv(v2))/dx after step 1" % opname,
            lambda: torch.autograd.grad(op.mv(v2).sum(), x)[0],
            lambda: torch.autograd.grad((dense(x) @ v2).sum(), x)[0])
    attempt("%s step 2: d(mm)/dx after step 1" % opname,
            lambda: torch.autograd.grad(op.mm(V).sum(), x)[0],
            lambda: torch.autograd.grad((dense(x) @ V).sum(), x)[0])

    # control: the very same products on an operator without the history are fine
    n0 = len(problems)
    op2 = make_op(x)
    attempt("%s control rmv" % opname, lambda: op2.rmv(w), lambda: dense(x).T @ w)
    attempt("%s control d(mv(v2))/dx" % opname,
            lambda: torch.autograd.grad(op2.mv(v2).sum(), x)[0],
            lambda: torch.autograd.grad((dense(x) @ v2).sum(), x)[0])
    if len(problems) != n0:
        print("(control on a fresh operator failed too: not history dependent)")

run("jac", lambda x: jac(f, (x,), 0), dense_jac, 4)
run("hess", lambda x: hess(e, (x,), 0), dense_hess, 3)

if problems:
    print("VIOLATION: after one product of the operator was differentiated (torch.autograd.grad / "
          ".backward with default arguments),\nlater products of the same operator fail:")
    for p in problems:
        print("  -", p)
    sys.exit(1)
print("ok: products stay correct and differentiable after an earlier product was differentiated")
sys.exit(0)
