"""
C11 violation 4: history dependence of a Jacobian operator.
J = xitorch.grad.jac(module.forward, (x,)) is a LinearOperator (an EditableModule).
Calling the documented debugging helper  J.assertparams(J.mv, v)  (this is also
what xitorch's functionals do on a method passed as `fcn` when
xitorch.debug.enable_debug() is active) raises IndexError from its own restore
step and leaves J corrupted: afterwards mv / mm / fullmatrix raise for perfectly
valid inputs (and rmv may not), i.e. the five products no longer describe one matrix.
A fresh, identically constructed operator is fine, so the behaviour of the
operator depends on the history of calls made on it.
"""
import sys
import warnings
import torch
import xitorch
from xitorch.grad import jac

warnings.simplefilter("ignore")
torch.manual_seed(0)
dt = torch.float64

class Mod(torch.nn.Module):
    def __init__(self):
        super().__init__()
        self.w = torch.nn.Parameter(torch.randn(3, 3, dtype=dt))

    def forward(self, x):
        return torch.tanh(self.w @ x)

class EMod(xitorch.EditableModule):
    def __init__(self, w):
        self.w = w

    def forward(self, x):
        return torch.tanh(self.w @ x)

    def getparamnames(self, methodname, prefix=""):
        return [prefix + "w"]

def products(op):
    g = torch.Generator().manual_seed(1)
    p, q = op.shape[-2:]
    x = torch.randn(q, dtype=dt, generator=g)
    X = torch.randn(q, 2, dtype=dt, generator=g)
    y = torch.randn(p, dtype=dt, generator=g)
    Y = torch.randn(p, 2, dtype=dt, generator=g)
    res = {}
    for name, f in [("fullmatrix", lambda: op.fullmatrix()), ("mv", lambda: op.mv(x)),
                    ("mm", lambda: op.mm(X)), ("rmv", lambda: op.rmv(y)), ("rmm", lambda: op.rmm(Y))]:
        try:
            res[name] = f().detach()
        except Exception as e:
            res[name] = "%s: %s" % (type(e).__name__, str(e).split("\n")[0][:80])
    return res

fails = []
for label, owner in [("torch.nn.Module", Mod()),
                     ("xitorch.EditableModule", EMod(torch.randn(3, 3, dtype=dt).requires_grad_()))]:
    print("=== Jacobian operator of a method of a", label)
    x0 = torch.randn(3, dtype=dt).requires_grad_()
    J = jac(owner.forward, (x0,), idxs=0)
    ref = torch.autograd.functional.jacobian(owner.forward, x0.detach()).detach()
    before = products(J)
    ok0 = all(isinstance(v, torch.Tensor) for v in before.values()) and torch.allclose(before["fullmatrix"], ref)
    print("  before: all five products evaluate, fullmatrix == true Jacobian:", ok0)

    try:
        J.assertparams(J.mv, torch.randn(3, dtype=dt))
        print("  J.assertparams(J.mv, v): done")
    except Exception as e:
        print("  J.assertparams(J.mv, v) raised %s: %s" % (type(e).__name__, e))
        # (not counted by itself: what matters for the property is the operator afterwards)

    after = products(J)
    for name in before:
        b, a = before[name], after[name]
        if isinstance(a, str):
            print("  after : %-10s raises %s" % (name, a))
            fails.append("%s: %s raises after assertparams" % (label, name))
        elif not torch.allclose(a, b):
            print("  after : %-10s changed value (max diff %.3e)" % (name, (a - b).abs().max().item()))
            fails.append("%s: %s changed after assertparams" % (label, name))
        else:
            print("  after : %-10s unchanged" % name)

# the same thing reached without calling assertparams by hand: debug mode
print("=== debug mode: rootfinder(J.mv, y0) inside xitorch.enable_debug()")
from xitorch.optimize import rootfinder
mod = Mod()
x0 = torch.randn(3, dtype=dt).requires_grad_()
J = jac(mod.forward, (x0,), idxs=0)
before = products(J)
with xitorch.enable_debug():
    try:
        rootfinder(J.mv, torch.randn(3, dtype=dt), method="broyden1")
        print("  rootfinder returned")
    except Exception as e:
        print("  rootfinder raised %s: %s" % (type(e).__name__, str(e)[:80]))
after = products(J)
for name in before:
    a = after[name]
    if isinstance(a, str):
        print("  after : %-10s raises %s" % (name, a))
        fails.append("debug-mode rootfinder: %s raises afterwards" % name)
    elif not torch.allclose(a, before[name]):
        print("  after : %-10s changed value" % name)
        fails.append("debug-mode rootfinder: %s changed afterwards" % name)
    else:
        print("  after : %-10s unchanged" % name)

if fails:
    print("FAIL: the Jacobian LinearOperator is corrupted by a legal call history:")
    for f in fails:
        print("   -", f)
    sys.exit(1)
print("PASS")
sys.exit(0)
