"""
C17 / finding 5: for a function with REAL input and COMPLEX output the transposed
products (rmv, rmm, .H.mv, .H.mm) silently drop the imaginary part, and .H.fullmatrix()
raises.

f(y) = exp(i y) * sum(y)   (plane-wave phases times a real amplitude), y real.
The dense Jacobian J = df/dy is a complex 3x3 matrix.  mv, mm and fullmatrix of the
operator reproduce it.  But

    rmv(h)          returns  Re(J^H h)   instead of  J^H h,
    rmm(I)          returns  Re(J^H)     instead of  J^H,
    .H.mv / .H.mm   likewise,
    .H.fullmatrix() raises (the identity it multiplies with has the real dtype of y),

so the operator and its own .H are not adjoint of each other:  (J.H).fullmatrix-by-mm
differs from J.fullmatrix().conj().T.
"""
import sys
import torch
from xitorch.grad import jac

torch.manual_seed(0)
dt = torch.float64
cdt = torch.complex128


def f(y):
    return torch.exp(1j * y) * y.sum()


def dense_jacobian(y):
    # d/dy_j [exp(i y_k) * S] = delta_kj * i exp(i y_k) S + exp(i y_k)
    e = torch.exp(1j * y)
    return torch.diag(1j * e * y.sum()) + e.reshape(-1, 1) * torch.ones(1, y.numel(), dtype=cdt)


def main():
    failures = []
    y = torch.randn(3, dtype=dt, requires_grad=True)
    Jd = dense_jacobian(y).detach()
    # make sure the hand-written Jacobian is right: finite differences
    eps = 1e-6
    Jfd = torch.stack([(f(y.detach() + eps * torch.eye(3, dtype=dt)[j]) -
                        f(y.detach() - eps * torch.eye(3, dtype=dt)[j])) / (2 * eps) for j in range(3)], dim=1)
    assert torch.allclose(Jfd, Jd, atol=1e-7), "reference Jacobian is wrong"

    J = jac(f, (y,), 0)
    print("operator shape", tuple(J.shape), "announced dtype", J.dtype)
    g = torch.randn(3, dtype=dt)
    h = torch.randn(3, dtype=cdt)
    eye_c = torch.eye(3, dtype=cdt)

    tests = [
        ("mv", lambda: J.mv(g), Jd @ g.to(cdt)),
        ("fullmatrix", lambda: J.fullmatrix(), Jd),
        ("rmv", lambda: J.rmv(h), Jd.conj().T @ h),
        ("rmm", lambda: J.rmm(eye_c), Jd.conj().T),
        (".H.mv", lambda: J.H.mv(h), Jd.conj().T @ h),
        (".H.mm", lambda: J.H.mm(eye_c), Jd.conj().T),
        (".H.fullmatrix", lambda: J.H.fullmatrix(), Jd.conj().T),
    ]
    for name, got, ref in tests:
        try:
            a = got().detach()
            ok = a.shape == ref.shape and torch.allclose(a.to(cdt), ref)
            print("%-14s %s  (max |difference| = %.3e, result dtype %s)" %
                  (name, "ok" if ok else "WRONG", float((a.to(cdt) - ref).abs().max()), a.dtype))
            if not ok:
                failures.append("%s differs from the product with the dense Jacobian" % name)
        except Exception as e:
            print("%-14s raised %s: %s" % (name, type(e).__name__, str(e)[:100]))
            failures.append("%s raised %s" % (name, type(e).__name__))

    if failures:
        print("FAIL: transposed products of the Jacobian of a real->complex function are wrong: "
              + "; ".join(failures))
        return 1
    print("PASS")
    return 0


if __name__ == "__main__":
    sys.exit(main())
