"""
C10 / finding 3
A tensor that an EditableModule gets from its *class* (a class-level attribute
shared by all instances, listed in getparamnames because it affects the output
and requires grad) is temporarily replaced during the backward pass by
``setattr(instance, name, copy)`` and "put back" by ``setattr(instance, name,
original)``.  The instance therefore ends up holding a tensor of its own in
``vars(obj)`` that it did not hold before; the link to the class attribute is
cut: when the shared tensor is replaced afterwards, the instance keeps using
the old one.
"""
import sys
import warnings
import torch
import xitorch
from xitorch.optimize import rootfinder

warnings.simplefilter("ignore")
dt = torch.double


class Model(xitorch.EditableModule):
    # shared by all instances
    coupling = torch.tensor(0.3, dtype=dt, requires_grad=True)

    def __init__(self, a):
        self.a = a

    def resid(self, y, x):
        return torch.tanh(self.a * y + self.coupling * x) * 0.5 - y

    def getparamnames(self, methodname, prefix=""):
        return [prefix + "a", prefix + "coupling"]


def tensors_held(obj):
    return sorted((k, id(v)) for k, v in vars(obj).items() if isinstance(v, torch.Tensor))


a = torch.tensor([0.5, 0.4, 0.3], dtype=dt, requires_grad=True)
m1 = Model(a)
m2 = Model(a)            # an instance that is never given to xitorch
x = torch.tensor(0.7, dtype=dt, requires_grad=True)

held0 = tensors_held(m1)
y = rootfinder(m1.resid, torch.zeros(3, dtype=dt), params=(x,))
held1 = tensors_held(m1)
ga, gc = torch.autograd.grad(y.sum(), (a, Model.coupling))
held2 = tensors_held(m1)
print("tensors held by the instance before the call :", [k for k, _ in held0])
print("tensors held by the instance after forward   :", [k for k, _ in held1])
print("tensors held by the instance after backward  :", [k for k, _ in held2])

problems = []
if held1 != held0:
    problems.append("the forward call changed the tensors the instance holds: %s -> %s" % (held0, held1))
if held2 != held0:
    problems.append("the backward pass changed the tensors the instance holds: %s -> %s"
                    % ([k for k, _ in held0], [k for k, _ in held2]))

# consequence: the shared tensor is replaced for all instances
Model.coupling = torch.tensor(0.9, dtype=dt, requires_grad=True)
if m2.coupling is not Model.coupling:
    raise AssertionError("demo is not sound")
if m1.coupling is not Model.coupling:
    problems.append("after `Model.coupling = new`, the instance that went through the backward pass "
                    "still uses the old tensor (%s) while an untouched instance uses the new one (%s)"
                    % (float(m1.coupling), float(m2.coupling)))

# ---------------------------------------------------------------------------
# Part B: the same with a LinearOperator and a *forward-only* solve (no autograd):
# uselinopparams writes every listed name with setattr, also in the forward pass
from xitorch.linalg import solve


class ShiftedOp(xitorch.LinearOperator):
    shift = torch.tensor(3.0, dtype=dt, requires_grad=True)   # shared by all instances

    def __init__(self):
        super().__init__(shape=(6, 6), dtype=dt)
        torch.manual_seed(0)
        self.m = torch.randn(6, 6, dtype=dt) * 0.1

    def _mv(self, v):
        return v @ self.m.T + self.shift * v

    def _getparamnames(self, prefix=""):
        return [prefix + "m", prefix + "shift"]


A = ShiftedOp()
heldA0 = [k for k, _ in tensors_held(A)]
with torch.no_grad():
    solve(A, torch.ones(6, 1, dtype=dt), method="bicgstab")
heldA1 = [k for k, _ in tensors_held(A)]
print("LinearOperator: tensors held before / after a forward solve:", heldA0, "/", heldA1)
if heldA0 != heldA1:
    problems.append("[forward-only solve] the tensors held by the LinearOperator instance changed: %s -> %s"
                    % (heldA0, heldA1))

if problems:
    print("FAIL")
    for p in problems:
        print(" -", p)
    sys.exit(1)
print("PASS")
sys.exit(0)
