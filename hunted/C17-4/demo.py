"""
C17 violation 4: the products are post-processed by
    connect_graph(out, params):  out + sum(p.reshape(-1)[0] * 0 for p in params)
over *all* differentiable arguments and *all* parameters of the object.
`p[0] * 0` is not 0 when p[0] is inf/nan, and does not exist when p is empty:
  (a) a differentiable argument whose first element is +inf  -> every product is NaN
  (b) nn.Module with a frozen additive attention mask Parameter starting with -inf -> every product is NaN
  (c) a differentiable argument with zero elements -> IndexError from mv/rmv/fullmatrix
although the dense Jacobians are finite and well defined in all three cases.
"""
import sys
import torch
from xitorch.grad import jac, hess

torch.manual_seed(0)
dt = torch.double
fails = []

def dense_jac(f, params, idx):
    def g(p):
        ps = list(params)
        ps[idx] = p
        return f(*ps)
    J = torch.autograd.functional.jacobian(g, params[idx])
    return J.reshape(-1, params[idx].numel())

def compare(tag, make_op, Jd):
    try:
        J = make_op()
        v = torch.randn(2, Jd.shape[1], dtype=dt)
        u = torch.randn(2, Jd.shape[0], dtype=dt)
        res = {"fullmatrix": (J.fullmatrix(), Jd), "mv": (J.mv(v), v @ Jd.T), "rmv": (J.rmv(u), u @ Jd),
               "H.fullmatrix": (J.H.fullmatrix(), Jd.T)}
    except Exception as ex:
        print("%s raised %s: %s" % (tag, type(ex).__name__, ex))
        fails.append("%s: %s: %s (dense Jacobian is finite, shape %s)" % (tag, type(ex).__name__, ex, tuple(Jd.shape)))
        return
    bad = [k for k, (a, b) in res.items() if not torch.allclose(a, b)]
    print("%s fullmatrix:\n%s\n  dense:\n%s" % (tag, res["fullmatrix"][0].detach(), Jd))
    if bad:
        fails.append("%s: %s differ from the dense products (NaN: %s)" %
                     (tag, bad, bool(torch.isnan(res["fullmatrix"][0]).any())))

x = torch.randn(3, dtype=dt, requires_grad=True)

# (a) decay times, the first one infinite: f = x^2 exp(-tau) + x ; df/dx = diag(2 x exp(-tau) + 1), finite
tau = torch.tensor([float("inf"), 1.0, 2.0], dtype=dt, requires_grad=True)
f = lambda x, tau: x ** 2 * torch.exp(-tau) + x
compare("(a) inf-valued differentiable argument", lambda: jac(f, (x, tau), idxs=0), dense_jac(f, (x, tau), 0))
e = lambda x, tau: f(x, tau).pow(2).sum()
try:
    H = hess(e, (x, tau), idxs=0)
    Hd = torch.autograd.functional.hessian(lambda x_: e(x_, tau), x)
    if not torch.allclose(H.fullmatrix(), Hd):
        fails.append("(a) hess: fullmatrix differs from dense Hessian (NaN: %s)" % bool(torch.isnan(H.fullmatrix()).any()))
except Exception as ex:
    fails.append("(a) hess raised %s" % ex)

# (b) nn.Module with a frozen -inf attention mask
class Att(torch.nn.Module):
    def __init__(self):
        super().__init__()
        mask = torch.zeros(3, 3, dtype=dt)
        mask[0, 0] = -float("inf")
        self.mask = torch.nn.Parameter(mask, requires_grad=False)
        self.w = torch.nn.Parameter(torch.randn(3, 3, dtype=dt))
    def forward(self, x):
        return torch.softmax(self.w * x + self.mask, dim=-1) @ x
m = Att()
compare("(b) module with frozen -inf mask Parameter", lambda: jac(m.forward, (x,), idxs=0), dense_jac(m.forward, (x,), 0))

# (c) an empty differentiable argument (e.g. zero extra features)
extra = torch.zeros(0, dtype=dt, requires_grad=True)
f2 = lambda x, extra: torch.cat([x ** 2, extra])
compare("(c) empty differentiable argument", lambda: jac(f2, (x, extra), idxs=0), dense_jac(f2, (x, extra), 0))

if fails:
    print("FAIL")
    for s in fails:
        print("  -", s)
    sys.exit(1)
print("PASS")
sys.exit(0)
