"""
C17 / finding 4: a COMPLEX tensor among the parameters turns every product of a REAL
Jacobian / Hessian into a complex tensor.

Module with complex weights, real input, real output (spectral / Fourier layers look
like this).  The dense Jacobian w.r.t. the real input is a real float64 matrix and so are
all its products.  The operator returned by jac()/hess() announces dtype float64, but
mv / rmv / mm / rmm / fullmatrix / .H return complex128 tensors (imaginary part 0),
which cannot be compared with, added in place to, or fed to real-valued code
(torch.allclose raises, `>` raises, in-place accumulation into a real buffer raises).
"""
import sys
import torch
from xitorch.grad import jac, hess

torch.manual_seed(0)
dt = torch.float64
cdt = torch.complex128


class Spectral(torch.nn.Module):
    # real -> real map with complex weights: irfft(weight * rfft(y))
    def __init__(self, n):
        super().__init__()
        self.n = n
        self.weight = torch.nn.Parameter(torch.randn(n // 2 + 1, dtype=cdt))

    def forward(self, y):
        return torch.tanh(torch.fft.irfft(self.weight * torch.fft.rfft(y), n=self.n))

    def energy(self, y):
        return (self.forward(y) ** 2).sum()


def main():
    failures = []
    n = 4
    net = Spectral(n)
    y = torch.randn(n, dtype=dt, requires_grad=True)
    g = torch.randn(2, n, dtype=dt)

    Jd = torch.autograd.functional.jacobian(lambda yy: net(yy), y)
    Hd = torch.autograd.functional.hessian(lambda yy: net.energy(yy), y)
    print("dense Jacobian dtype:", Jd.dtype, "| dense Hessian dtype:", Hd.dtype)

    for label, op, D in [("jac", jac(net, (y,), 0), Jd), ("hess", hess(net.energy, (y,), 0), Hd)]:
        print("%s operator: shape %s, announced dtype %s" % (label, tuple(op.shape), op.dtype))
        prods = [
            ("mv", op.mv(g), g @ D.T),
            ("rmv", op.rmv(g), g @ D),
            ("mm", op.mm(g.T), D @ g.T),
            ("rmm", op.rmm(g.T), D.T @ g.T),
            ("fullmatrix", op.fullmatrix(), D),
            (".H.fullmatrix", op.H.fullmatrix(), D.T),
        ]
        for name, a, b in prods:
            same_dtype = a.dtype == b.dtype
            values_ok = a.shape == b.shape and torch.allclose(torch.view_as_real(a.to(cdt)),
                                                              torch.view_as_real(b.to(cdt)))
            try:
                usable = bool(torch.allclose(a, b))     # what any real-valued caller would do
            except Exception as e:
                usable = False
                err = "%s: %s" % (type(e).__name__, e)
            else:
                err = ""
            print("  %-14s dtype %-18s (dense: %s) values %s %s" %
                  (name, a.dtype, b.dtype, "equal" if values_ok else "DIFFER", ("| " + err) if err else ""))
            if not (same_dtype and values_ok and usable):
                failures.append("%s.%s is %s instead of %s" % (label, name, a.dtype, b.dtype))

    if failures:
        print("FAIL: products of a real Jacobian/Hessian are returned as complex tensors "
              "(%d of 12 products); e.g. %s" % (len(failures), failures[0]))
        return 1
    print("PASS")
    return 0


if __name__ == "__main__":
    sys.exit(main())
