"""
C17 / finding 2: every product of a jac/hess operator raises IndexError as soon as one
of the tensors the function depends on is EMPTY (zero elements) - even when that
tensor is not the one the derivative is taken with respect to.

The common idiom

    self.dummy = torch.nn.Parameter(torch.empty(0))     # "which device am I on?"

in an nn.Module is enough; so is an empty differentiable tensor among the arguments.
The operator is built (shape is right), but mv / rmv / mm / rmm / fullmatrix / .H all die
in connect_graph(), which reads element [0] of every parameter.
"""
import sys
import traceback
import torch
from xitorch.grad import jac, hess

torch.manual_seed(0)
dt = torch.float64


class Net(torch.nn.Module):
    def __init__(self):
        super().__init__()
        self.w = torch.nn.Parameter(torch.randn(3, dtype=dt))
        self.dummy = torch.nn.Parameter(torch.empty(0))  # legal, zero elements

    def forward(self, y):
        return torch.sin(self.w * y) * y.sum()

    def total(self, y):
        return self.forward(y).sum()


def check(label, op, D, failures, wrt):
    # compare every product of the operator with the dense matrix D
    p, q = D.shape
    g = torch.randn(2, q, dtype=dt)
    h = torch.randn(2, p, dtype=dt)
    tests = [
        ("mv", lambda: op.mv(g), lambda: g @ D.T),
        ("rmv", lambda: op.rmv(h), lambda: h @ D),
        ("mm", lambda: op.mm(g.T), lambda: D @ g.T),
        ("rmm", lambda: op.rmm(h.T), lambda: D.T @ h.T),
        ("fullmatrix", lambda: op.fullmatrix(), lambda: D),
        (".H.fullmatrix", lambda: op.H.fullmatrix(), lambda: D.T),
    ]
    for name, got, ref in tests:
        try:
            a, b = got(), ref()
            ok = a.shape == b.shape and torch.allclose(a, b)
            if ok:
                # first order derivative of the product w.r.t. a tensor the function uses
                ga, = torch.autograd.grad(a.sum(), wrt, retain_graph=True)
                gb, = torch.autograd.grad(b.sum(), wrt, retain_graph=True)
                ok = torch.allclose(ga, gb)
            print("%-28s %-14s %s" % (label, name, "ok" if ok else "MISMATCH"))
            if not ok:
                failures.append("%s: %s differs from the dense product" % (label, name))
        except Exception as e:
            print("%-28s %-14s raised %s: %s" % (label, name, type(e).__name__, e))
            failures.append("%s: %s raised %s: %s" % (label, name, type(e).__name__, e))


def main():
    failures = []
    AF = torch.autograd.functional

    # (a) nn.Module with an empty "dummy" parameter
    net = Net()
    y = torch.randn(3, dtype=dt, requires_grad=True)
    Jd = AF.jacobian(lambda yy: net(yy), y, create_graph=True)
    Hd = AF.hessian(lambda yy: net(yy).sum(), y, create_graph=True)
    try:
        J = jac(net, (y,), 0)
        assert tuple(J.shape) == (3, 3), J.shape
        check("jac, module+empty param", J, Jd, failures, net.w)
        H = hess(net.total, (y,), 0)
        assert tuple(H.shape) == (3, 3), H.shape
        check("hess, module+empty param", H, Hd, failures, net.w)
    except Exception as e:
        traceback.print_exc()
        failures.append("construction raised %s: %s" % (type(e).__name__, e))

    # (b) plain function with an empty differentiable argument (not the differentiated one)
    x = torch.randn(3, dtype=dt, requires_grad=True)
    e = torch.zeros(0, dtype=dt, requires_grad=True)

    def f(x, e):
        return torch.cat([torch.sin(x) * x.sum(), e ** 2])   # 3 + 0 outputs

    Jd2 = AF.jacobian(lambda xx: f(xx, e), x, create_graph=True)
    try:
        J2 = jac(f, (x, e), 0)
        assert tuple(J2.shape) == tuple(Jd2.shape), J2.shape
        check("jac, fcn+empty argument", J2, Jd2, failures, x)
    except Exception as ex:
        traceback.print_exc()
        failures.append("construction raised %s: %s" % (type(ex).__name__, ex))

    if failures:
        print("FAIL: products of jac/hess operators are unusable when an empty tensor is among "
              "the parameters (%d failing checks); first: %s" % (len(failures), failures[0]))
        return 1
    print("PASS")
    return 0


if __name__ == "__main__":
    sys.exit(main())
