"""
C11 / 4: for an operator defined from the matrix-vector product alone, the adjoint
products (rmv, rmm, .H.mv, .H.fullmatrix, (A.H @ B).mv, ...) raise under
torch.inference_mode(), and also outside it when the operator's tensors were created
under inference mode.  mv / mm / fullmatrix work in both situations, and the same
operator with torch.no_grad() works, so the set of products that "describe one matrix"
depends on the ambient grad mode.
"""
import sys
import torch
from xitorch import LinearOperator

torch.manual_seed(0)
dt = torch.float64


class MvOnly(LinearOperator):
    def __init__(self, mat):
        super().__init__(shape=mat.shape, dtype=mat.dtype, device=mat.device)
        self.mat = mat

    def _mv(self, x):
        return torch.matmul(self.mat, x.unsqueeze(-1)).squeeze(-1)

    def _getparamnames(self, prefix=""):
        return [prefix + "mat"]


def attempt(label, fn, ref):
    try:
        out = fn()
        ok = torch.allclose(out, ref)
        print("    %-22s %s" % (label, "ok" if ok else "WRONG VALUE"))
        return ok
    except Exception as e:
        print("    %-22s raises %s: %s" % (label, type(e).__name__, str(e)[:60]))
        return False


def all_products(A, mat):
    p, q = mat.shape
    x = torch.ones(q, dtype=dt)
    y = torch.ones(p, dtype=dt)
    mh = mat.T.conj()
    ok = True
    ok &= attempt("mv", lambda: A.mv(x), mat @ x)
    ok &= attempt("mm", lambda: A.mm(torch.eye(q, dtype=dt)), mat)
    ok &= attempt("fullmatrix", lambda: A.fullmatrix(), mat)
    ok &= attempt("rmv", lambda: A.rmv(y), mh @ y)
    ok &= attempt("rmm", lambda: A.rmm(torch.eye(p, dtype=dt)), mh)
    ok &= attempt("H.fullmatrix", lambda: A.H.fullmatrix(), mh)
    ok &= attempt("(A.H @ A).fullmatrix", lambda: A.H.matmul(A).fullmatrix(), mh @ mat)
    return ok


mat = torch.randn(3, 4, dtype=dt)
A = MvOnly(mat)

print("grad mode enabled:")
ok_grad = all_products(A, mat)
print("torch.no_grad():")
with torch.no_grad():
    ok_nograd = all_products(A, mat)
print("torch.inference_mode():")
with torch.inference_mode():
    ok_inf = all_products(A, mat)

print("operator built from a tensor created under inference_mode, used outside:")
with torch.inference_mode():
    mat2 = torch.randn(3, 4, dtype=dt)
A2 = MvOnly(mat2)
ok_inf2 = all_products(A2, mat2)

if not (ok_grad and ok_nograd and ok_inf and ok_inf2):
    print("FAIL: the adjoint products of an mv-only operator are unavailable in/after "
          "inference mode while mv/mm/fullmatrix work")
    sys.exit(1)
print("PASS")
sys.exit(0)
