"""
C10 / finding 4 (debug mode only)
The debug-mode pre-flight check (EditableModule.assertparams, run by every
functional when xitorch.enable_debug() is active) walks through everything that
is reachable from the user's object.  One-shot iterators (generators, zip, map,
iter(list), ...) have no __dict__ but do have __iter__, so the walker iterates
them: afterwards they are exhausted.  An EditableModule that keeps a stream of
tensors (a batch generator) has lost all of them after one functional call -
although the method given to the functional never touches the stream.
"""
import sys
import io
import contextlib
import warnings
import torch
import xitorch
from xitorch.optimize import rootfinder

warnings.simplefilter("ignore")
dt = torch.double


def batches():
    for i in range(3):
        yield torch.full((2,), float(i), dtype=dt)


class Model(xitorch.EditableModule):
    def __init__(self, stream):
        self.a = torch.tensor([0.5, 0.4, 0.3], dtype=dt, requires_grad=True)
        self.stream = stream          # consumed elsewhere by the user, not by `resid`

    def resid(self, y):
        return torch.tanh(self.a * y + 0.3) * 0.5 - y

    def getparamnames(self, methodname, prefix=""):
        return [prefix + "a"]


def experiment(make_stream, debug):
    m = Model(make_stream())
    outcome = "completed"
    ctx = xitorch.enable_debug() if debug else xitorch.disable_debug()
    try:
        with ctx, contextlib.redirect_stdout(io.StringIO()):
            rootfinder(m.resid, torch.zeros(3, dtype=dt))
    except Exception as e:
        outcome = "raised %s" % type(e).__name__
    left = list(m.stream)
    return outcome, len(left)


problems = []
for label, mk, expected in [("generator of 3 tensors", batches, 3),
                            ("zip of 2 pairs (no tensors)", lambda: zip([1, 2], [3, 4]), 2)]:
    for debug in [False, True]:
        outcome, left = experiment(mk, debug)
        print("%-28s debug=%-5s call %-28s items left in the stream: %d (expected %d)"
              % (label, debug, outcome, left, expected))
        if left != expected:
            problems.append("%s, debug=%s: the functional call (%s) left %d of %d items in the "
                            "iterator held by the EditableModule" % (label, debug, outcome, left, expected))
if xitorch.is_debug_enabled():
    problems.append("debug flag not restored")

if problems:
    print("FAIL")
    for p in problems:
        print(" -", p)
    sys.exit(1)
print("PASS")
sys.exit(0)
