"""C16 violation 5: in debug mode mcquad rejects a tuple-valued integrand that is a method of
an EditableModule (a documented kind of integrand) instead of averaging it component-wise."""
import sys, io, contextlib
import torch
import xitorch as xt
from xitorch.integrate import mcquad
from xitorch.debug.modes import enable_debug
torch.set_default_dtype(torch.float64)

def step(x):
    return torch.sin(3.0 * x + 1.0) * 1.5 + 0.1
OPT = dict(method="mhcustom", custom_step=step, nsamples=5, nburnout=1)
X0 = torch.tensor([0.2, -0.3])

class Mod(xt.EditableModule):
    def __init__(self, a, b):
        self.a = a; self.b = b
    def single(self, x):
        return torch.cos(self.a * x) * self.b
    def pair(self, x):
        return torch.cos(self.a * x) * self.b, torch.sin(self.a * x).sum()
    def logp(self, x):
        return -(x * x).sum() / (2 * self.a * self.a)
    def getparamnames(self, methodname, prefix=""):
        if methodname == "logp": return [prefix + "a"]
        if methodname == "pair": return [prefix + "a", prefix + "b"]
        return [prefix + "a", prefix + "b"]

a = torch.tensor(0.7, requires_grad=True); b = torch.tensor(0.3, requires_grad=True)
m = Mod(a, b)

ref = mcquad(m.pair, m.logp, X0, **OPT)                 # normal mode: works
gref = torch.autograd.grad(ref[0].sum() + ref[1], (a, b))
print("normal mode :", [r.detach() for r in ref], gref)

fail = []
with enable_debug():
    with contextlib.redirect_stdout(io.StringIO()):      # assertparams prints a line
        y1 = mcquad(m.single, m.logp, X0, **OPT)         # tensor output in debug mode: fine
    print("debug, tensor output:", y1.detach())
    try:
        with contextlib.redirect_stdout(io.StringIO()):
            y = mcquad(m.pair, m.logp, X0, **OPT)
        g = torch.autograd.grad(y[0].sum() + y[1], (a, b))
        print("debug, tuple output :", [r.detach() for r in y], g)
        if not (all(torch.allclose(u, v) for u, v in zip(y, ref)) and
                all(torch.allclose(u, v) for u, v in zip(g, gref))):
            fail.append("debug mode changes the result")
    except Exception as e:
        print("debug, tuple output : raised %s: %s" % (type(e).__name__, e))
        fail.append("mcquad raised %s for a tuple-valued integrand in debug mode" % type(e).__name__)
if m.a is not a or m.b is not b:
    fail.append("object not restored")

if fail:
    print("FAIL:", "; ".join(fail))
    sys.exit(1)
print("PASS")
