"""
C16 demo 1: an mcquad nested in the integrand of another mcquad, parameters held by an
object: the SECOND-order gradient is wrong (first order and value are right).

Everything is deterministic: both expectations use method="mhcustom" with a fixed,
parameter-free custom step, so the samples are known and the result is an explicit
sample mean that can be differentiated by plain autograd.
"""
import sys
import torch
import xitorch as xt
from xitorch.integrate import mcquad

torch.set_default_dtype(torch.float64)

# ---------------------------------------------------------------- deterministic samplers
def step_out(x, *_):
    return 0.6 * x + 0.5 * torch.cos(3 * x + 1.0)

def step_in(y, *_):
    return -0.7 * y + 0.9 * torch.sin(2 * y + 0.3)

def chain(step, x0, nsamples, nburnout):
    x = x0.detach()
    for _ in range(nburnout):
        x = step(x)
    xs = [x]
    for _ in range(nsamples - 1):
        x = step(x)
        xs.append(x)
    return xs

X0, NX, BX = torch.tensor(0.3), 4, 1
Y0, NY, BY = torch.tensor(0.8), 4, 1
OUT = dict(method="mhcustom", nsamples=NX, nburnout=BX, custom_step=step_out)
INN = dict(method="mhcustom", nsamples=NY, nburnout=BY, custom_step=step_in)
XS = chain(step_out, X0, NX, BX)
YS = chain(step_in, Y0, NY, BY)

# ---------------------------------------------------------------- the model
def g_(y, x, b):      # inner integrand
    return torch.sin(x * y + 1.0) * torch.exp(b * y)

def lq_(y, x, b):     # inner log-density, depends on the parameter b
    return -(y * y) * b * b * (1 + x * x)

def lp_(x):           # outer log-density, no parameters
    return -x * x / 2

class Model(xt.EditableModule):
    def __init__(self, b):
        self.b = b

    def g(self, y, x):
        return g_(y, x, self.b)

    def lq(self, y, x):
        return lq_(y, x, self.b)

    def f(self, x):
        # inner expectation E_{y~q(.|x,b)}[g(y,x,b)], f and log q are methods of self
        return mcquad(self.g, self.lq, Y0, fparams=[x], pparams=[x], **INN)

    def getparamnames(self, methodname, prefix=""):
        return [prefix + "b"]

# ---------------------------------------------------------------- explicit reference
def snis(f, logp, xs):
    # explicit (uniform-weight) sample mean whose derivatives w.r.t. the parameters of
    # log p are the covariance (score function) estimators on the same samples, to all
    # orders: w_i = exp(logp_i - stopgrad(logp_i)) / sum_j(...)  (value: 1/N each)
    lw = [logp(x) for x in xs]
    w = [torch.exp(l - l.detach()) if isinstance(l, torch.Tensor) and l.requires_grad
         else torch.tensor(1.0) for l in lw]
    return sum(wi * f(x) for wi, x in zip(w, xs)) / sum(w)

def reference(b):
    inner = lambda x: snis(lambda y: g_(y, x, b), lambda y: lq_(y, x, b), YS)
    return snis(inner, lp_, XS)

def derivs(val, b):
    g1, = torch.autograd.grad(val, b, create_graph=True)
    g2, = torch.autograd.grad(g1, b)
    return val.item(), g1.item(), g2.item()

# ---------------------------------------------------------------- run
b = torch.tensor(0.6, requires_grad=True)

ref = derivs(reference(b), b)

# (1) library, parameter b passed explicitly everywhere (same maths, no object)
def f_explicit(x, b):
    return mcquad(g_, lq_, Y0, fparams=[x, b], pparams=[x, b], **INN)
lib_explicit = derivs(mcquad(f_explicit, lp_, X0, fparams=[b], **OUT), b)

# (2) library, parameter b held by the object
m = Model(b)
lib_object = derivs(mcquad(m.f, lp_, X0, **OUT), b)

# (3) not nested: the inner expectation alone, b held by the object (control)
x_fix = XS[0]
ctl_lib = derivs(mcquad(m.g, m.lq, Y0, fparams=[x_fix], pparams=[x_fix], **INN), b)
ctl_ref = derivs(snis(lambda y: g_(y, x_fix, b), lambda y: lq_(y, x_fix, b), YS), b)

names = ("value", "d/db", "d2/db2")
def show(title, t):
    print("%-46s" % title + "  ".join("%s=% .10f" % (n, v) for n, v in zip(names, t)))
show("explicit sample mean (reference)", ref)
show("mcquad nested, b explicit", lib_explicit)
show("mcquad nested, b held by the object", lib_object)
show("control: inner mcquad alone, reference", ctl_ref)
show("control: inner mcquad alone, b held by object", ctl_lib)

def same(u, v):
    return abs(u - v) <= 1e-9 + 1e-7 * abs(v)

bad = []
for n, u, v in zip(names, lib_object, ref):
    if not same(u, v):
        bad.append("nested/object %s: library % .10f, explicit sample mean % .10f" % (n, u, v))
for n, u, v in zip(names, lib_explicit, ref):
    if not same(u, v):
        bad.append("nested/explicit %s: library % .10f, explicit sample mean % .10f" % (n, u, v))
for n, u, v in zip(names, ctl_lib, ctl_ref):
    if not same(u, v):
        bad.append("control %s: library % .10f, explicit sample mean % .10f" % (n, u, v))

if bad:
    print("FAIL: gradient of mcquad differs from the derivative of the explicit sample mean")
    for l in bad:
        print("   ", l)
    sys.exit(1)
print("PASS")
sys.exit(0)
