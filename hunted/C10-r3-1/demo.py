"""
C10 violation: a tensor name that the object answers through __getattr__
(attribute pass-through to a wrapped object) is "put back" as a NEW attribute of
the wrapper. After backward (EditableModule / rootfinder) or already after the
forward call (LinearOperator / solve) the caller's object owns a tensor entry
it never had, which shadows the wrapped object from then on.

exit 1: violation present, exit 0: library behaves
"""
import sys
import warnings
import torch
import xitorch
from xitorch.optimize import rootfinder
from xitorch.linalg import solve

warnings.simplefilter("ignore")
dt = torch.double
bad = []

# ---------------------------------------------------------------- history 1
class Inner:
    def __init__(self):
        self.w = torch.tensor([[1.1, 0.4], [0.3, 0.8]], dtype=dt, requires_grad=True)

class Wrap(xitorch.EditableModule):
    """EditableModule that forwards unknown attributes to the wrapped object"""
    def __init__(self, inner):
        self._inner = inner

    def __getattr__(self, name):
        if name.startswith("_"):
            raise AttributeError(name)
        return getattr(self._inner, name)

    def f(self, y):
        return torch.tanh(self.w @ y + 0.1) + y / 2

    def getparamnames(self, methodname, prefix=""):
        return [prefix + "w"]

def tensor_entries(obj):
    return sorted(k for k, v in vars(obj).items() if isinstance(v, torch.Tensor))

inner = Inner()
m = Wrap(inner)
y0 = torch.zeros(2, 1, dtype=dt)

# control: the same history without xitorch
before = tensor_entries(m)
yc = m.f(y0)
yc.sum().backward()
print("[1] control (plain call+backward): tensor entries of wrapper", before, "->", tensor_entries(m))

before = tensor_entries(m)
y = rootfinder(m.f, y0)
after_fwd = tensor_entries(m)
y.sum().backward()
after_bwd = tensor_entries(m)
print("[1] rootfinder: tensor entries of wrapper before", before, "after forward", after_fwd,
      "after backward", after_bwd)
if after_bwd != before:
    bad.append("EditableModule wrapper acquired instance attribute(s) %s after rootfinder backward" %
               sorted(set(after_bwd) - set(before)))
# consequence for the caller: the wrapper no longer follows the wrapped object
inner.w = torch.zeros(2, 2, dtype=dt, requires_grad=True)
follows = m.w is inner.w
print("[1] after `inner.w = new`, wrapper.w is inner.w:", follows)
if not follows:
    bad.append("wrapper.w is a stale tensor: it no longer resolves to the wrapped object's tensor")

# ---------------------------------------------------------------- history 2
class Holder:
    def __init__(self):
        self.diag = torch.tensor([2.0, 3.0, 4.0, 5.0, 6.0, 7.0], dtype=dt, requires_grad=True)

class DiagOp(xitorch.LinearOperator):
    """LinearOperator whose tensor lives in a shared holder, reached via __getattr__"""
    def __init__(self, holder):
        n = holder.diag.shape[0]
        super().__init__(shape=(n, n), is_hermitian=True, dtype=dt)
        self._holder = holder

    def __getattr__(self, name):
        if name.startswith("_"):
            raise AttributeError(name)
        return getattr(self._holder, name)

    def _mv(self, x):
        return x * self.diag

    def _getparamnames(self, prefix=""):
        return [prefix + "diag"]

holder = Holder()
A = DiagOp(holder)
B = torch.ones(6, 1, dtype=dt)
before = tensor_entries(A)
x = solve(A, B, method="cg")        # forward only, nothing raises
after_fwd = tensor_entries(A)
print("[2] solve forward only: tensor entries of operator before", before, "after", after_fwd)
if after_fwd != before:
    bad.append("LinearOperator acquired instance attribute(s) %s after solve forward" %
               sorted(set(after_fwd) - set(before)))

# ---------------------------------------------------------------- history 3
class Proxy(torch.nn.Module):
    """the common attribute pass-through module wrapper"""
    def __init__(self, module):
        super().__init__()
        self.module = module

    def __getattr__(self, name):
        try:
            return super().__getattr__(name)
        except AttributeError:
            return getattr(self.module, name)

    def forward(self, x):
        return self.module(x)

class Model(xitorch.EditableModule):
    def __init__(self):
        self.net = Proxy(torch.nn.Linear(2, 2).to(dt))

    def f(self, y):
        return torch.tanh(torch.nn.functional.linear(y, self.net.weight, self.net.bias) * 0.3 + 0.1) + y / 2

    def getparamnames(self, methodname, prefix=""):
        return [prefix + "net.weight", prefix + "net.bias"]

mod = Model()
before = sorted(k for k in mod.net.__dict__ if not k.startswith("_") and k != "training")
y = rootfinder(mod.f, torch.zeros(1, 2, dtype=dt))
y.sum().backward()
after = sorted(k for k in mod.net.__dict__ if not k.startswith("_") and k != "training")
print("[3] nn.Module proxy: __dict__ entries before", before, "after backward", after)
if after != before:
    bad.append("nn.Module proxy acquired __dict__ entries %s (Parameters held outside _parameters)" %
               sorted(set(after) - set(before)))

print()
if bad:
    print("VIOLATION of C10:")
    for b in bad:
        print(" -", b)
    sys.exit(1)
print("OK: objects unchanged")
sys.exit(0)
