"""
C16 / finding 1: after ONE earlier mcquad call on an object, a tensor that the
caller adds to the object (and that the object's getparamnames reports) gets no
gradient from the next mcquad call, although it enters f.

The same second call on an object without the earlier call gives the right
gradient, so the outcome depends on the history of calls on the object only.

exit 1: violation present, exit 0: library behaved according to the statement
"""
import sys
import torch
import xitorch
from xitorch.integrate import mcquad

torch.manual_seed(0)
torch.set_default_dtype(torch.float64)

NSAMPLES, NBURNOUT = 7, 3

def step(x, *pparams):
    # deterministic caller-supplied step (already "accepted")
    return torch.sin(3.0 * x + 1.0) * 1.5

def explicit_samples(x0):
    x = x0
    for _ in range(NBURNOUT):
        x = step(x)
    xs = [x]
    for _ in range(NSAMPLES - 1):
        x = step(x)
        xs.append(x)
    return xs

class Poly(xitorch.EditableModule):
    # f(x) = sum_k coeffs[k] * sum(x^k);  p(x) ~ exp(-sum(c x^2))
    def __init__(self, coeffs, c):
        self.coeffs = list(coeffs)
        self.c = c

    def f(self, x):
        return sum(ck * (x ** k).sum() for k, ck in enumerate(self.coeffs))

    def logp(self, x):
        return -(self.c * x ** 2).sum()

    def getparamnames(self, methodname, prefix=""):
        # lists exactly the tensors that affect the output of the method
        if methodname == "f":
            return [prefix + "coeffs[%d]" % k for k in range(len(self.coeffs))]
        elif methodname == "logp":
            return [prefix + "c"]
        raise KeyError(methodname)

x0 = torch.tensor([0.3, -0.2])
c0 = torch.tensor(0.5, requires_grad=True)
c1 = torch.tensor(-0.3, requires_grad=True)
c2 = torch.tensor(0.8, requires_grad=True)
c = torch.tensor([0.9, 1.1], requires_grad=True)
opts = dict(method="mhcustom", nsamples=NSAMPLES, nburnout=NBURNOUT, custom_step=step)

def run(earlier_call):
    model = Poly([c0, c1], c)
    if earlier_call:
        mcquad(model.f, model.logp, x0, **opts)   # the first-order model is evaluated once
    model.coeffs.append(c2)                       # the caller adds the quadratic term
    assert model.getparamnames("f") == ["coeffs[0]", "coeffs[1]", "coeffs[2]"]
    res = mcquad(model.f, model.logp, x0, **opts)
    grads = torch.autograd.grad(res, (c0, c1, c2, c), allow_unused=True)
    return model, res, grads

# explicit sample mean and the mean of df on the same samples
xs = explicit_samples(x0)
fs = [sum(ck * (x ** k).sum() for k, ck in enumerate([c0, c1, c2])) for x in xs]
mean_f = sum(fs) / len(fs)
mean_df = torch.autograd.grad(mean_f, (c0, c1, c2))          # tensors entering f only

bad = False
for earlier_call in (False, True):
    model, res, grads = run(earlier_call)
    tag = "with an earlier call   " if earlier_call else "without an earlier call"
    if not torch.allclose(res, mean_f, atol=1e-12):
        print("%s: value %r differs from the sample mean %r" % (tag, res.item(), mean_f.item()))
        bad = True
    for name, g, gref in zip(("coeffs[0]", "coeffs[1]", "coeffs[2]"), grads[:3], mean_df):
        if g is None:
            print("%s: d<f>/d%s is ABSENT, the mean of df is %.6f (the tensor enters f)"
                  % (tag, name, gref.item()))
            bad = True
        elif not torch.allclose(g, gref, atol=1e-10):
            print("%s: d<f>/d%s = %.6f, the mean of df is %.6f" % (tag, name, g.item(), gref.item()))
            bad = True
        else:
            print("%s: d<f>/d%s = %.6f ok" % (tag, name, g.item()))

if bad:
    print("VIOLATION: the gradient w.r.t. a tensor entering f (held by the object) depends on "
          "whether mcquad was called on the object before")
    sys.exit(1)
print("ok")
sys.exit(0)
