"""C16 violation 4: mcquad on a method of an nn.Module that is called while another xitorch
functional has temporarily substituted the module's Parameters (i.e. inside the user function
of another functional during ITS backward) sees no object parameters at all: the inner
expectation comes out with requires_grad=False and the tensors entering f get no gradient.

Only observations that are NOT affected by C16-2 are checked (the EditableModule twin of the
same model passes every check below)."""
import sys
import torch
import xitorch as xt
from xitorch.integrate import mcquad
from xitorch.optimize import rootfinder
torch.set_default_dtype(torch.float64)

def step(x):
    return torch.sin(3.0 * x + 1.0) * 1.5 + 0.1
OPT_IN = dict(method="mhcustom", custom_step=step, nsamples=4, nburnout=0)
OPT_OUT = dict(method="mhcustom", custom_step=step, nsamples=3, nburnout=1)
Z0 = torch.tensor([0.1]); X0 = torch.tensor([0.2])

def chain(x0, n, nb):
    x = x0
    for _ in range(nb): x = step(x)
    xs = [x]
    for _ in range(n - 1):
        x = step(x); xs.append(x)
    return xs

def inner_explicit(a, b):     # log q has no parameters -> plain mean
    return sum(torch.sin(a * z) + b * b * z * z for z in chain(Z0, 4, 0)) / 4
def outer_explicit(a, b):
    return sum(inner_explicit(a, b) * x for x in chain(X0, 3, 1)) / 3

def make(base):
    class Model(base):
        def __init__(self, a, b):
            super().__init__()
            self.seen = []
            if base is torch.nn.Module:
                self.a = torch.nn.Parameter(a); self.b = torch.nn.Parameter(b)
            else:
                self.a = a.requires_grad_(); self.b = b.requires_grad_()
        def g(self, z): return torch.sin(self.a * z) + self.b * self.b * z * z
        def logq(self, z): return -(z * z).sum() / 2
        def inner(self):
            y = mcquad(self.g, self.logq, Z0, **OPT_IN)
            # record: does the inner expectation depend (for autograd) on what the object holds?
            self.seen.append((torch.is_grad_enabled(), self.a.requires_grad, y.requires_grad))
            return y
        def f(self, x): return self.inner() * x
        def logp(self, x): return -(x * x).sum() / 2
        def resid(self, y): return (y - self.inner()) * (1 + y * y)   # root: y = E_q[g]
        def getparamnames(self, methodname, prefix=""):
            if methodname in ("logp", "logq"): return []
            return [prefix + "a", prefix + "b"]
    return Model

results = {}
for base in (xt.EditableModule, torch.nn.Module):
    name = base.__name__
    bad = []
    m = make(base)(torch.tensor(0.7), torch.tensor(0.3))
    a, b = torch.tensor(0.7, requires_grad=True), torch.tensor(0.3, requires_grad=True)

    # (i) implicit differentiation through rootfinder, create_graph=True
    yr = rootfinder(m.resid, torch.tensor([0.3]), method="broyden1")
    want = torch.autograd.grad(inner_explicit(a, b), (a, b))
    got = torch.autograd.grad(yr, (m.a, m.b), create_graph=True, allow_unused=True)
    ok = all(g is not None and torch.allclose(g, w) for g, w in zip(got, want))
    print("[%s] d root/d(a,b) (create_graph=True): got %s want %s %s" % (name, got, want, "ok" if ok else "WRONG"))
    if not ok: bad.append("rootfinder gradient")

    # (ii) mcquad inside mcquad: second derivatives
    m.seen.clear()
    yo = mcquad(m.f, m.logp, X0, **OPT_OUT)
    g1 = torch.autograd.grad(yo, (m.a, m.b), create_graph=True)
    yo_r = outer_explicit(a, b)
    g1_r = torch.autograd.grad(yo_r, (a, b), create_graph=True)
    for i in range(2):
        h = torch.autograd.grad(g1[i], (m.a, m.b), retain_graph=True, allow_unused=True)[i]
        h_r = torch.autograd.grad(g1_r[i], (a, b), retain_graph=True, allow_unused=True)[i]
        h = torch.zeros(()) if h is None else h
        h_r = torch.zeros(()) if h_r is None else h_r
        ok = torch.allclose(h, h_r)
        print("[%s] nested mcquad d2E/dp%d^2: got %.6f want %.6f %s" % (name, i, h.item(), h_r.item(), "ok" if ok else "WRONG"))
        if not ok: bad.append("nested hessian %d" % i)
    # (iii) direct observation of the inner call
    blind = [s for s in m.seen if s[0] and s[1] and not s[2]]
    print("[%s] inner mcquad calls with grad mode on and the object holding tensors that require grad,"
          " whose result nevertheless has requires_grad=False: %d of %d" % (name, len(blind), len(m.seen)))
    if blind: bad.append("inner result detached from the object's tensors")
    results[name] = bad

if any(results.values()):
    print("FAIL:", results)
    sys.exit(1)
print("PASS")
