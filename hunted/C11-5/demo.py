"""
C11 violation 5: Jacobian operator of a function with real input and complex
output.  jac() reports dtype float64 for the operator although its matrix
(fullmatrix / mv / mm) is complex, and rmv / rmm do not apply the conjugate
transpose of that matrix: for a complex vector they silently drop the imaginary
part of J^H g, for a vector of the operator's own dtype they raise.
"""
import sys
import warnings
import torch
from xitorch.grad import jac

warnings.simplefilter("ignore")
torch.manual_seed(0)

c = torch.randn(3, 3, dtype=torch.complex128)
x0 = torch.randn(3, dtype=torch.float64).requires_grad_()

def fcn(x, c):
    # R^3 -> C^3  (e.g. a Fourier-type transform of a real signal)
    return c @ x.to(c.dtype)

J = jac(fcn, (x0, c), idxs=0)
F = J.fullmatrix().detach()
print("declared J.dtype =", J.dtype, "; fullmatrix().dtype =", F.dtype)
print("fullmatrix == c :", torch.allclose(F, c))

fails = []
if J.dtype != F.dtype:
    fails.append("declared dtype %s != dtype of the matrix %s" % (J.dtype, F.dtype))

v = torch.randn(3, dtype=torch.float64)
print("mv(v) == F v :", torch.allclose(J.mv(v).detach(), F @ v.to(F.dtype)))

g = torch.randn(3, dtype=torch.complex128)
want = F.transpose(-2, -1).conj() @ g
for tag, vec in [("complex g", g), ("real g (operator's declared dtype)", g.real.clone())]:
    w = F.transpose(-2, -1).conj() @ vec.to(F.dtype)
    try:
        got = J.rmv(vec).detach()
        ok = got.dtype == w.dtype and torch.allclose(got, w)
        print("rmv(%s): got %s\n      fullmatrix^H g = %s  -> %s" % (tag, got, w, "ok" if ok else "WRONG"))
        if not ok:
            fails.append("rmv(%s) != fullmatrix^H g" % tag)
    except Exception as e:
        print("rmv(%s) raised %s: %s" % (tag, type(e).__name__, str(e)[:90]))
        fails.append("rmv(%s) raised" % tag)

G = torch.randn(3, 2, dtype=torch.complex128)
W = F.transpose(-2, -1).conj() @ G
got = J.rmm(G).detach()
ok = got.dtype == W.dtype and torch.allclose(got, W)
print("rmm(complex G) == fullmatrix^H G :", ok)
if not ok:
    fails.append("rmm(complex G) != fullmatrix^H G")
try:
    HF = J.H.fullmatrix().detach()
    ok = HF.dtype == F.dtype and torch.allclose(HF, F.transpose(-2, -1).conj())
    print("J.H.fullmatrix() == fullmatrix^H :", ok)
except Exception as e:
    ok = False
    print("J.H.fullmatrix() raised %s: %s" % (type(e).__name__, str(e)[:90]))
if not ok:
    fails.append("J.H.fullmatrix() != J.fullmatrix()^H")

if fails:
    print("FAIL:", fails)
    sys.exit(1)
print("PASS")
sys.exit(0)
