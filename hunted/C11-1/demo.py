"""
C11 violation 1: a dense-wrapped (or re-wrapped after +,-,scalar*) matrix whose
entries are small in magnitude is silently flagged Hermitian, so rmv/rmm/.H no
longer apply the conjugate transpose of the matrix that mv/mm/fullmatrix describe.
"""
import sys
import warnings
import torch
from xitorch import LinearOperator

warnings.simplefilter("ignore")
dt = torch.float64
fails = []

def relerr(got, want):
    return ((got - want).abs().max() / want.abs().max()).item()

def check(tag, got, want):
    e = relerr(got, want)
    status = "ok" if e < 1e-10 else "WRONG"
    print("  %-34s rel.err = %.3e  %s" % (tag, e, status))
    if e >= 1e-10:
        fails.append(tag)

base = torch.tensor([[1., 2.], [3., 4.]], dtype=dt)   # clearly not symmetric
y = torch.tensor([1., -2.], dtype=dt)
Y = torch.tensor([[1., 0.5], [-2., 3.]], dtype=dt)

# (a) dense wrap of a matrix expressed in "small" units
mat = 1e-9 * base
A = LinearOperator.m(mat)
print("(a) A = LinearOperator.m(1e-9 * [[1,2],[3,4]]);  A.is_hermitian =", A.is_hermitian)
F = A.fullmatrix()
check("A.rmv(y) vs fullmatrix^H y", A.rmv(y), F.transpose(-2, -1).conj() @ y)
check("A.rmm(Y) vs fullmatrix^H Y", A.rmm(Y), F.transpose(-2, -1).conj() @ Y)
check("A.H.fullmatrix() vs fullmatrix^H", A.H.fullmatrix(), F.transpose(-2, -1).conj())
check("A.H.mv(y) vs fullmatrix^H y", A.H.mv(y), F.transpose(-2, -1).conj() @ y)

# (b) an expression: scalar * (dense operator that is correctly non-Hermitian)
M = LinearOperator.m(base)
S = M * 1e-9
print("(b) M = LinearOperator.m([[1,2],[3,4]]) (is_hermitian=%s);  S = M * 1e-9 (is_hermitian=%s)"
      % (M.is_hermitian, S.is_hermitian))
check("S.rmv(y) vs 1e-9 * M.rmv(y)", S.rmv(y), 1e-9 * M.rmv(y))
check("S.H.fullmatrix() vs 1e-9*M.H.fullmatrix()", S.H.fullmatrix(), 1e-9 * M.H.fullmatrix())
# difference of two operators
D = LinearOperator.m(base) - LinearOperator.m(base - mat)   # == mat up to rounding
check("(M - M').rmv(y) vs (M-M').fullmatrix()^H y", D.rmv(y), D.fullmatrix().transpose(-2, -1).conj() @ y)

# (c) an explicit but wrong Hermiticity claim must be rejected
print("(c) LinearOperator.m(1e-9*[[1,2],[3,4]], is_hermitian=True)")
try:
    LinearOperator.m(mat, is_hermitian=True)
    print("  accepted without error  WRONG")
    fails.append("is_hermitian=True accepted for a non-Hermitian matrix")
except RuntimeError as e:
    print("  rejected:", e)

if fails:
    print("FAIL: products of a dense-wrapped operator are mutually inconsistent:", fails)
    sys.exit(1)
print("PASS")
sys.exit(0)
