# C20_2: a Packer that has itself been copied-and-refilled (it sits inside a
# structure rebuilt by another Packer) can no longer rebuild: its tensor memo is
# keyed by the ids of the tensors it held *before* the refill.
import sys
import torch
from xitorch import Packer

torch.manual_seed(0)

class Model(object):
    # an object that keeps a Packer of its own parameters as a helper
    def __init__(self, w, b):
        self.params = {"w": w, "b": b, "tied": w}
        self.packer = Packer(self.params)
        self.packer.get_param_tensor_list()

w = torch.randn(2, 2, requires_grad=True)
b = torch.randn(3, requires_grad=True)
model = Model(w, b)

# control: the helper works on the original model, also with non-leaf tensors
z = [(w * 3.0), (b * 3.0)]
r0 = model.packer.construct_from_tensor_list(z)
assert r0["w"] is z[0] and r0["tied"] is z[0] and r0["b"] is z[1]

# rebuild the whole model from a differentiable flat parameter vector
outer = Packer(model)
flat = outer.get_param_tensor()
assert flat.numel() == 7
model2 = outer.construct_from_tensor(flat * 2.0)   # slots now hold non-leaf views
assert torch.equal(model2.params["w"], w * 2) and model2.params["tied"] is model2.params["w"]

# the rebuilt model carries a Packer of the rebuilt params ...
inner = model2.packer
lst = inner.get_param_tensor_list()
if not (len(lst) == 2 and lst[0] is model2.params["w"] and lst[1] is model2.params["b"]):
    print("VIOLATION: the rebuilt Packer does not list the rebuilt tensors")
    sys.exit(1)

# ... which must rebuild like any Packer
new = [torch.zeros(2, 2), torch.ones(3)]
try:
    r = inner.construct_from_tensor_list(new)
except Exception as e:
    print("VIOLATION: Packer found inside a rebuilt structure cannot rebuild "
          "(right number and shapes of tensors supplied): %s: %s" % (type(e).__name__, str(e)[:150]))
    sys.exit(1)

ok = (list(r.keys()) == ["w", "b", "tied"] and r["w"] is new[0] and r["tied"] is new[0]
      and r["b"] is new[1])
# and the Packer / the structure it came from is untouched
ok = ok and inner.get_param_tensor_list()[0] is model2.params["w"]
if not ok:
    print("VIOLATION: wrong structure", r)
    sys.exit(1)
print("ok")
sys.exit(0)
