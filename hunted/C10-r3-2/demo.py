"""
C10 violation (debug mode): the pre-flight check of a functional exhausts every
plain Python iterator / generator reachable from the caller's EditableModule.
The call completes (or fails blaming the user's method), the debug flag is
restored, but the object is not in the state the caller left it in.

exit 1: violation present, exit 0: library behaves
"""
import sys
import warnings
import torch
import xitorch
from xitorch.optimize import rootfinder
from xitorch.debug.modes import enable_debug, is_debug_enabled

warnings.simplefilter("ignore")
dt = torch.double
bad = []

class M(xitorch.EditableModule):
    def __init__(self, with_tensor_stream):
        self.w = torch.tensor([[1.1, 0.4], [0.3, 0.8]], dtype=dt, requires_grad=True)
        self.ids = iter(range(5))                # e.g. a stream of sample ids / seeds
        if with_tensor_stream:                   # e.g. a stream of mini-batches
            self.batches = (torch.full((2, 1), float(i), dtype=dt) for i in range(3))

    def f(self, y):                              # pure: touches neither stream
        return torch.tanh(self.w @ y + 0.1) + y / 2

    def getparamnames(self, methodname, prefix=""):
        return [prefix + "w"]

def left(it):
    return len(list(it))

y0 = torch.zeros(2, 1, dtype=dt)

# control: same call, debug mode off
m = M(with_tensor_stream=True)
rootfinder(m.f, y0).sum().backward()
print("control (debug off): ids left %d/5, batches left %d/3" % (left(m.ids), left(m.batches)))

# history 1: only a non-tensor iterator; the call completes silently
m = M(with_tensor_stream=False)
with enable_debug():
    y = rootfinder(m.f, y0)
n_ids = left(m.ids)
print("debug on, call completed: ids left %d/5, debug flag now %s" % (n_ids, is_debug_enabled()))
if n_ids != 5:
    bad.append("iterator held by the object was exhausted by a completed rootfinder call (%d/5 left)" % n_ids)

# history 2: a generator of tensors; the check consumes it and then blames the method
m = M(with_tensor_stream=True)
w_before = m.w
try:
    with enable_debug():
        y = rootfinder(m.f, y0)
    print("debug on, call completed")
except Exception as e:
    print("debug on, call raised %s: %s" % (type(e).__name__, str(e).splitlines()[0]))
n_b = left(m.batches)
print("   batches left %d/3, w identical: %s, debug flag now %s" % (n_b, m.w is w_before, is_debug_enabled()))
if n_b != 3:
    bad.append("generator of tensors held by the object was exhausted by the pre-flight check (%d/3 left)" % n_b)

print()
if bad:
    print("VIOLATION of C10:")
    for b in bad:
        print(" -", b)
    sys.exit(1)
print("OK: object unchanged")
sys.exit(0)
