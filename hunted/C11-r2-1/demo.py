"""
C11 / 1: a Jacobian operator (xitorch.grad.jac) stops providing its adjoint
products after the user has back-propagated ONCE through the result of any of
its products.

History:  J = jac(f, [x]);  y = J.mv(v);  y.sum().backward()   (ordinary backward)
Then:     J.mv(v) still works, but J.rmv / J.rmm / J.H.* raise
          "Trying to backward through the graph a second time".
So mv/mm/fullmatrix and rmv/rmm no longer describe one and the same matrix:
the first group answers, the second raises, on the very same object.
"""
import sys
import warnings
import torch
from xitorch.grad import jac

warnings.simplefilter("ignore")
torch.manual_seed(0)
dt = torch.float64


def f(x):
    # an ordinary nonlinear function R^3 -> R^3
    return torch.sin(x) * x.sum()


def run(first):
    x = torch.randn(3, dtype=dt, requires_grad=True)
    J = jac(f, [x], idxs=0)
    Jref = torch.autograd.functional.jacobian(f, x.detach())
    v = torch.randn(3, dtype=dt)

    # all products are fine on the fresh operator
    assert torch.allclose(J.fullmatrix(), Jref)
    assert torch.allclose(J.rmv(v), Jref.T @ v)
    assert torch.allclose(J.mv(v), Jref @ v)

    # the user computes ONE product and back-propagates ONCE through it
    # (a new graph of the user's own; nothing is back-propagated twice here)
    if first == "mv":
        y = J.mv(v)
    elif first == "rmv":
        y = J.rmv(v)
    else:
        y = J.fullmatrix()
    y.sum().backward()

    # the same operator, asked again
    res = {}
    for name, fn, ref in [
        ("mv", lambda: J.mv(v), Jref @ v),
        ("fullmatrix", lambda: J.fullmatrix(), Jref),
        ("rmv", lambda: J.rmv(v), Jref.T @ v),
        ("rmm", lambda: J.rmm(torch.eye(3, dtype=dt)), Jref.T),
        ("H.fullmatrix", lambda: J.H.fullmatrix(), Jref.T),
    ]:
        try:
            out = fn()
            res[name] = "ok" if torch.allclose(out, ref) else "WRONG VALUE"
        except Exception as e:
            res[name] = "raises %s: %s" % (type(e).__name__, str(e)[:70])
    return res


bad = False
for first in ["mv", "rmv", "fullmatrix"]:
    res = run(first)
    print("after one backward through J.%s(...):" % first)
    for k, r in res.items():
        print("    %-13s %s" % (k, r))
        if r != "ok":
            bad = True

if bad:
    print("FAIL: after a single ordinary backward through one of its products, the "
          "Jacobian operator's rmv/rmm/.H raise while mv/fullmatrix still answer")
    sys.exit(1)
print("PASS")
sys.exit(0)
