"""C16 violation 2: the first-order backward (create_graph=False) differentiates f / log p
with the tensors the OBJECT HOLDS AT BACKWARD TIME, not with the tensors that entered the
forward pass. Three triggers, all with a deterministic mhcustom sampler."""
import sys
import torch
import xitorch as xt
from xitorch.integrate import mcquad
from xitorch.optimize import rootfinder
torch.set_default_dtype(torch.float64)

def step(x):
    return torch.sin(3.0 * x + 1.0) * 1.5 + 0.1
OPT = dict(method="mhcustom", custom_step=step, nsamples=5, nburnout=1)
X0 = torch.tensor([0.2])

def samples():
    x = step(X0); xs = [x]
    for _ in range(4):
        x = step(x); xs.append(x)
    return xs

def explicit(a, b):
    # the documented estimator written out: self-normalised weights on the same samples
    xs = samples()
    lps = torch.stack([-(x * x).sum() / (2 * a * a) for x in xs])
    w = torch.exp(lps - lps.detach()); w = w / w.sum()
    return sum(wi * torch.cos(a * x) * b for wi, x in zip(w, xs))

class Mod(xt.EditableModule):
    def __init__(self, a, b):
        self.a = a; self.b = b
    def f(self, x):
        return torch.cos(self.a * x) * self.b
    def logp(self, x):
        return -(x * x).sum() / (2 * self.a * self.a)
    def expect(self):
        return mcquad(self.f, self.logp, X0, **OPT)
    def resid(self, y):                 # root of this is y = E_p[f]
        return y - self.expect()
    def outer_f(self, z):               # integrand of an outer mcquad that contains an inner one
        return self.expect() * z
    def outer_logp(self, z):
        return -(z * z).sum() / 2
    def getparamnames(self, methodname, prefix=""):
        if methodname == "logp": return [prefix + "a"]
        if methodname == "outer_logp": return []
        return [prefix + "a", prefix + "b"]

fail = []
def report(name, got, want):
    ok = all(g is not None and torch.allclose(g, w_) for g, w_ in zip(got, want))
    print("%-62s got %s  want %s  %s" % (name, [None if g is None else round(g.item(), 4) for g in got],
                                          [round(w_.item(), 4) for w_ in want], "ok" if ok else "WRONG"))
    if not ok: fail.append(name)

a = torch.tensor(0.7, requires_grad=True); b = torch.tensor(0.3, requires_grad=True)
want = torch.autograd.grad(explicit(a, b), (a, b))

# sanity: plain call
m = Mod(a, b)
report("plain call, first order", torch.autograd.grad(m.expect(), (a, b)), want)

# --- trigger A: two evaluations of the same object at two parameter values, one backward
m = Mod(a, b)
y1 = m.expect()
a2 = torch.tensor(1.4, requires_grad=True)
m.a = a2                                  # re-use the object at another parameter value
y2 = m.expect()
report("A: y1 computed with a, then m.a = a2; grad(y1,(a,b))", torch.autograd.grad(y1, (a, b), retain_graph=True, allow_unused=True), want)
report("A: same, create_graph=True", torch.autograd.grad(y1, (a, b), create_graph=True, allow_unused=True), want)

# --- trigger B: mcquad inside the function given to rootfinder (implicit differentiation)
m = Mod(a, b)
yr = rootfinder(m.resid, torch.tensor([0.5]), method="broyden1")
print("   rootfinder solution", yr.item(), " E_p[f] =", explicit(a, b).item())
report("B: d root / d(a,b), first order", torch.autograd.grad(yr, (a, b), retain_graph=True, allow_unused=True), want)
report("B: same, create_graph=True", torch.autograd.grad(yr, (a, b), create_graph=True, allow_unused=True), want)

# --- trigger C: mcquad inside the integrand of another mcquad, create_graph=True
m = Mod(a, b)
z0 = torch.tensor([0.4])
OPT2 = dict(method="mhcustom", custom_step=step, nsamples=3, nburnout=0)
yo = mcquad(m.outer_f, m.outer_logp, z0, **OPT2)
z = z0; zs = [z]
for _ in range(2):
    z = step(z); zs.append(z)
want_o = torch.autograd.grad(explicit(a, b) * (sum(zs) / 3), (a, b))
report("C: nested mcquad, first order", torch.autograd.grad(yo, (a, b), retain_graph=True), want_o)
report("C: nested mcquad, first order with create_graph=True", torch.autograd.grad(yo, (a, b), create_graph=True), want_o)

if fail:
    print("FAIL: gradient w.r.t. tensors entering f / log p is not the mean of df / the score-function estimator:")
    for n in fail: print("    ", n)
    sys.exit(1)
print("PASS")
