"""
C16 demo 4: the list of parameter names of an EditableModule method is cached on the object the
first time any functional looks at it (EditableModule.cached_getparamnames) and never refreshed.
If the object legitimately changes between two mcquad calls so that getparamnames() now returns
other names (a tensor appended to a list the object holds; a switch that makes the method use
another tensor), the second mcquad call still uses the names of the FIRST call:
   - the tensors that now enter f get no gradient (None) although the value depends on them,
   - xitorch's own debug-mode check (which calls getparamnames afresh) reports nothing.
Deterministic: method="mhcustom" with a fixed custom step.
"""
import sys
import io
import contextlib
import warnings
import torch
import xitorch as xt
from xitorch.integrate import mcquad

torch.set_default_dtype(torch.float64)

def step(x, *_):
    return 0.6 * x + 0.5 * torch.cos(3 * x + 1.0)

def chain(x0, nsamples, nburnout):
    x = x0
    for _ in range(nburnout):
        x = step(x)
    xs = [x]
    for _ in range(nsamples - 1):
        x = step(x)
        xs.append(x)
    return xs

X0 = torch.tensor([0.3, -0.2])
OPT = dict(method="mhcustom", nsamples=5, nburnout=2, custom_step=step)
XS = chain(X0, 5, 2)

def logp(x):
    return -(x * x).sum()

class Basis(xt.EditableModule):
    """f(x) = sum_k sin(c_k x); the coefficients live in a list that may grow"""
    def __init__(self, coeffs):
        self.coeffs = list(coeffs)

    def f(self, x):
        return sum(torch.sin(c * x) for c in self.coeffs)

    def getparamnames(self, methodname, prefix=""):
        if methodname == "f":
            return [prefix + "coeffs[%d]" % i for i in range(len(self.coeffs))]
        raise KeyError(methodname)

def sample_mean(m):
    return sum(m.f(x) for x in XS) / len(XS)

def grads(val, params):
    return torch.autograd.grad(val.sum(), params, allow_unused=True)

failures = []

c0 = torch.tensor(1.2, requires_grad=True)
c1 = torch.tensor(0.5, requires_grad=True)

m = Basis([c0])
r = mcquad(m.f, logp, X0, **OPT)
g = grads(r, [c0])
gt = grads(sample_mean(m), [c0])
print("call 1 (one coefficient) : value ok:", torch.allclose(r, sample_mean(m)),
      "| d/dc0 library", g[0], "correct", gt[0])
if not torch.allclose(g[0], gt[0]):
    failures.append("call 1 gradient differs")

# the user extends the model; getparamnames now reports two names
m.coeffs.append(c1)
print("getparamnames('f') now   :", m.getparamnames("f"))

with warnings.catch_warnings(record=True) as wlist:
    warnings.simplefilter("always")
    buf = io.StringIO()
    with contextlib.redirect_stdout(buf), xt.enable_debug():
        r = mcquad(m.f, logp, X0, **OPT)
print("debug-mode check said     :", buf.getvalue().strip(), "| warnings:", [str(w.message) for w in wlist])
val_ok = torch.allclose(r, sample_mean(m))
g = grads(r, [c0, c1])
gt = grads(sample_mean(m), [c0, c1])
print("call 2 (two coefficients): value ok:", val_ok)
print("    d/dc0 library", g[0], "correct", gt[0])
print("    d/dc1 library", g[1], "correct", gt[1])
if not val_ok:
    failures.append("call 2 value differs from the sample mean")
if g[1] is None or not torch.allclose(g[1], gt[1]):
    failures.append("call 2: tensor c1 enters f (value depends on it) but its gradient is %s instead of %s"
                    % (g[1], gt[1].item()))
if g[0] is None or not torch.allclose(g[0], gt[0]):
    failures.append("call 2: gradient of c0 differs")

# a fresh object in the same final state works - only the history differs
m2 = Basis([c0, c1])
g2 = grads(mcquad(m2.f, logp, X0, **OPT), [c0, c1])
print("fresh object, same state : d/dc1 library", g2[1], "correct", gt[1])
if g2[1] is None or not torch.allclose(g2[1], gt[1]):
    failures.append("fresh object differs as well")

if failures:
    print("FAIL:")
    for l in failures:
        print("   ", l)
    sys.exit(1)
print("PASS")
sys.exit(0)
