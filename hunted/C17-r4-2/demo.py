"""
C17 / finding 2: the operator for argument i is not the Jacobian w.r.t. argument i when the same
tensor is also passed as another argument.

Statement: "... products equal the corresponding products with the dense Jacobian (or symmetric
Hessian) of the function at the given point, for any selection of argument indices ...".

Usage: a two-argument function evaluated at a = b = x (e.g. a kernel k(x, x)), derivative w.r.t.
the first argument only:   jac(f, (x, x), idxs=0)      hess(e, (x, x), idxs=0)
Reference: torch.autograd.functional.jacobian / hessian with the same inputs (x, x), block [0] / [0][0].
"""
import sys
import torch
from xitorch.grad import jac, hess

torch.manual_seed(0)
dt = torch.double
A = torch.randn(4, 3, dtype=dt)

def f(a, b):                      # R^3 x R^3 -> R^4
    return torch.tanh(A @ a) * (A @ b)

def e(a, b):                      # scalar
    return (torch.sin(a) * b ** 2).sum()

x = torch.randn(3, dtype=dt).requires_grad_()
y = x.detach().clone().requires_grad_()     # a distinct tensor holding the same values

problems = []

def compare(label, op, ref):
    full = op.fullmatrix()
    if full.shape != ref.shape:
        problems.append("%s: shape %s instead of %s" % (label, tuple(full.shape), tuple(ref.shape)))
        return
    err = (full - ref).abs().max().item()
    v = torch.randn(ref.shape[1], dtype=dt)
    w = torch.randn(ref.shape[0], dtype=dt)
    err = max(err, (op.mv(v) - ref @ v).abs().max().item(), (op.rmv(w) - ref.T @ w).abs().max().item())
    if err > 1e-9:
        problems.append("%s: products differ from the dense reference, max abs error %.3e" % (label, err))

# reference: partial derivatives w.r.t. the first argument at a = b = x
Jref = torch.autograd.functional.jacobian(f, (x, x))[0]          # (4, 3)
Href = torch.autograd.functional.hessian(e, (x, x))[0][0]        # (3, 3)

compare("jac(f, (x, x), 0)", jac(f, (x, x), 0), Jref)
compare("jac(f, (x, x))[0]", jac(f, (x, x))[0], Jref)
compare("hess(e, (x, x), 0)", hess(e, (x, x), 0), Href)

# control: the same point given as two distinct tensors is handled correctly
n0 = len(problems)
compare("control jac(f, (x, y), 0)", jac(f, (x, y), 0), Jref)
compare("control hess(e, (x, y), 0)", hess(e, (x, y), 0), Href)
if len(problems) != n0:
    print("(control with two distinct tensors failed too)")

if problems:
    print("VIOLATION: with the same tensor passed in two argument slots the operator of slot 0 is the\n"
          "derivative w.r.t. both slots together, not the Jacobian/Hessian w.r.t. the selected argument:")
    for p in problems:
        print("  -", p)
    sys.exit(1)
print("ok: jac/hess give the partial Jacobian/Hessian of the selected argument")
sys.exit(0)
