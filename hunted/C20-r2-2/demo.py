"""C20 demo 2: a structure that contains a reference cycle (parent pointer, or a
torch.distributions Transform after its `.inv` has been used once) makes
Packer() die with RecursionError, although copy.deepcopy handles the structure
and the unique interface has a perfectly well defined answer."""
import sys
import copy
import torch
from xitorch._core.packer import Packer


class Node:
    pass


def make_tree():
    par, ch = Node(), Node()
    par.t = torch.tensor([1.0, 2.0])
    ch.t = torch.tensor([3.0, 4.0, 5.0])
    par.child = ch
    ch.parent = par          # back reference: par -> ch -> par
    return par


def check_unique(name, obj, named_slots, getslot):
    """named_slots: dict name -> original tensor ; getslot(structure, name) -> tensor there"""
    fails = []
    try:
        p = Packer(obj)
        ts = p.get_param_tensor_list(unique=True)
    except RecursionError as e:
        return ["%s: Packer()/get_param_tensor_list raised RecursionError" % name]
    except Exception as e:
        return ["%s: Packer() raised %s: %s" % (name, type(e).__name__, e)]
    ids = [id(t) for t in ts]
    if len(set(ids)) != len(ids) or set(ids) != set(id(t) for t in named_slots.values()):
        return ["%s: listed tensors are not the distinct tensors of the structure" % name]
    new = [torch.full_like(t, 100.0 + i) for i, t in enumerate(ts)]
    try:
        r = p.construct_from_tensor_list(new, unique=True)
    except Exception as e:
        return ["%s: construct_from_tensor_list raised %s: %s" % (name, type(e).__name__, e)]
    for nm, orig in named_slots.items():
        i = ids.index(id(orig))
        if getslot(r, nm) is not new[i]:
            fails.append("%s: slot %s does not hold the supplied tensor" % (name, nm))
        if getslot(obj, nm) is not orig:
            fails.append("%s: original slot %s modified" % (name, nm))
    return fails


def main():
    fails = []

    # ---- (a) plain objects with a parent pointer
    par = make_tree()
    copy.deepcopy(par)       # the structure is deep-copyable
    print("(a) parent/child objects with a back reference")
    f = check_unique("parent-pointer", par, {"t": par.t, "child.t": par.child.t},
                     lambda s, nm: s.t if nm == "t" else s.child.t)
    print("    ->", f if f else "ok")
    fails += f

    # ---- (b) history: a torch Transform before and after .inv was touched
    loc = torch.tensor([1.0, 1.0])
    scale = torch.tensor([2.0, 2.0])
    tr = torch.distributions.AffineTransform(loc, scale)
    slots = {"loc": loc, "scale": scale}
    print("(b) AffineTransform, before .inv is used")
    f = check_unique("transform-before", tr, slots, lambda s, nm: getattr(s, nm))
    print("    ->", f if f else "ok")
    fails += f
    y = tr.inv(torch.tensor([3.0, 5.0]))      # ordinary use; tr now remembers its inverse
    print("(b) the same AffineTransform, after tr.inv(y) was evaluated once")
    f = check_unique("transform-after-inv", tr, slots, lambda s, nm: getattr(s, nm))
    print("    ->", f if f else "ok")
    fails += f

    if fails:
        print("FAIL")
        for x in fails:
            print(" -", x)
        sys.exit(1)
    print("PASS")
    sys.exit(0)


if __name__ == "__main__":
    main()
