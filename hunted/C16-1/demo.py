"""C16 violation 1: a starting point x0 that requires grad (and no other differentiable
parameter) makes backward raise instead of giving x0 a zero/absent gradient."""
import sys, traceback
import torch
from xitorch.integrate import mcquad
torch.set_default_dtype(torch.float64)

def step(x):                       # deterministic "sampler" step
    return torch.sin(3.0 * x + 1.0) * 1.5 + 0.1
def f(x): return x * x
def logp(x): return -(x * x).sum()

fail = []
mu = torch.tensor(0.2, requires_grad=True)
for name, x0 in (("leaf x0", mu), ("x0 computed from a leaf", mu * 2.0)):
    for fcn, kind in ((f, "tensor output"), (lambda x: (x * x, x), "tuple output")):
        y = mcquad(fcn, logp, x0, method="mhcustom", custom_step=step, nsamples=5, nburnout=1)
        loss = (y[0] + y[1] if isinstance(y, tuple) else y) + (mu - 1.0) ** 2   # E_p[f] + a regulariser on mu
        try:
            g, = torch.autograd.grad(loss, mu, allow_unused=True)
            # the samples are constants for mcquad -> only the regulariser contributes
            expect = 2 * (mu.detach() - 1.0)
            print("%s / %s: grad = %s (expected %s)" % (name, kind, g, expect))
            if g is None or not torch.allclose(g, expect):
                fail.append("%s / %s: wrong gradient %s" % (name, kind, g))
        except Exception as e:
            print("%s / %s: backward raised %s: %s" % (name, kind, type(e).__name__, e))
            fail.append("%s / %s: backward raised %s" % (name, kind, type(e).__name__))

if fail:
    print("FAIL: x0 enters neither f's nor log p's parameters, yet backward errors instead of "
          "giving it a zero/absent gradient:")
    for m in fail: print("   ", m)
    sys.exit(1)
print("PASS")
