"""C20 violation 2: a container that occurs twice in the structure: with
unique=False its tensor slots are listed twice, but on rebuild the tensors
supplied for the first occurrence are silently thrown away."""
import sys
import torch
from xitorch import Packer

t = torch.tensor([1., 2.])
u = torch.tensor([5.])
inner = [t]
obj = [inner, u, inner]              # plain lists only; `inner` is held twice

packer = Packer(obj)
listed = packer.get_param_tensor_list(unique=False)
print("listed (unique=False):", listed)
n = len(listed)
supplied = [torch.full_like(x, float(10 + i)) for i, x in enumerate(listed)]
print("supplied             :", supplied)

try:
    new = packer.construct_from_tensor_list(list(supplied), unique=False)
except Exception as e:
    print("rebuild rejected with %s: %s" % (type(e).__name__, e))
    print("PASS (loud rejection, nothing silently misplaced)")
    sys.exit(0)
print("rebuilt              :", new)

def positions(b):
    if isinstance(b, torch.Tensor):
        return [b]
    r = []
    if isinstance(b, list):
        for e in b:
            r += positions(e)
    elif isinstance(b, dict):
        for e in b.values():
            r += positions(e)
    elif hasattr(b, "__dict__"):
        for e in b.__dict__.values():
            r += positions(e)
    return r

pos = positions(new)
problems = []
for i in range(n):
    if i >= len(pos) or pos[i] is not supplied[i]:
        problems.append("position %d does not hold supplied[%d] (holds %s)" % (i, i, pos[i] if i < len(pos) else None))
for i, s in enumerate(supplied):
    if not any(p is s for p in pos):
        problems.append("supplied[%d]=%s appears nowhere in the rebuilt structure (silently dropped)" % (i, s))

# same through the flat-tensor interface
flat0 = packer.get_param_tensor(unique=False)
flat = torch.arange(float(flat0.numel())) + 100
new2 = packer.construct_from_tensor(flat, unique=False)
got = torch.cat([p.reshape(-1) for p in positions(new2)])
print("flat supplied        :", flat)
print("flat read back       :", got)
if got.shape != flat.shape or not torch.equal(got, flat):
    problems.append("construct_from_tensor(unique=False): reading the rebuilt structure back gives %s, not the supplied %s" % (got, flat))

if problems:
    print("FAIL:")
    for p in problems:
        print("  -", p)
    sys.exit(1)
print("PASS")
sys.exit(0)
