"""C20 demo 1: the Packer lists the tensors of the ORIGINAL object but refills a
deep COPY of it; when the copy protocol of a user class (__getstate__ /
__setstate__, the standard pickle/deepcopy protocol) rebuilds the attributes in
another order, the i-th supplied tensor lands in the wrong attribute - silently."""
import sys
import torch
from xitorch._core.packer import Packer


class Model:
    # attribute order of a live object: w, b, _cache
    def __init__(self, w, b):
        self.w = w
        self.b = b
        self._cache = {}          # something one does not want to pickle/copy

    # explicit state, as many classes with an unpicklable member do
    def __getstate__(self):
        return (self.b, self.w)

    def __setstate__(self, state):
        self.b, self.w = state    # attribute order of a copy: b, w, _cache
        self._cache = {}


def main():
    w = torch.arange(6.0).reshape(2, 3)
    b = torch.tensor([10.0, 20.0, 30.0])
    m = Model(w, b)
    fails = []

    for unique in (True, False):
        p = Packer(m)
        ts = p.get_param_tensor_list(unique=unique)
        # which position does the Packer give to m.w and to m.b ?
        pos = {}
        for i, t in enumerate(ts):
            if t is m.w:
                pos["w"] = i
            if t is m.b:
                pos["b"] = i
        print("unique=%s  listed shapes: %s  position of w: %s, of b: %s"
              % (unique, [tuple(t.shape) for t in ts], pos.get("w"), pos.get("b")))
        if sorted(pos) != ["b", "w"] or len(ts) != 2:
            fails.append("unique=%s: the listed tensors are not exactly m.w and m.b" % unique)
            continue

        # --- list interface
        new = [torch.full_like(t, 100.0 + i) for i, t in enumerate(ts)]
        try:
            r = p.construct_from_tensor_list(new, unique=unique)
        except Exception as e:
            fails.append("unique=%s: construct_from_tensor_list raised %s: %s" % (unique, type(e).__name__, e))
            continue
        print("   rebuilt.w is new[%d]: %s ; rebuilt.b is new[%d]: %s ; shapes w:%s b:%s"
              % (pos["w"], r.w is new[pos["w"]], pos["b"], r.b is new[pos["b"]],
                 tuple(r.w.shape), tuple(r.b.shape)))
        if r.w is not new[pos["w"]] or r.b is not new[pos["b"]]:
            fails.append("unique=%s, list interface: the tensor supplied for the position of m.w "
                         "did not land in rebuilt.w (rebuilt.w has shape %s, rebuilt.b has shape %s)"
                         % (unique, tuple(r.w.shape), tuple(r.b.shape)))

        # --- flat interface: identity round trip
        flat = p.get_param_tensor(unique=unique)
        try:
            r2 = p.construct_from_tensor(flat, unique=unique)
        except Exception as e:
            fails.append("unique=%s: construct_from_tensor raised %s: %s" % (unique, type(e).__name__, e))
            continue
        same = (r2.w.shape == m.w.shape and torch.equal(r2.w, m.w)
                and r2.b.shape == m.b.shape and torch.equal(r2.b, m.b))
        print("   flat round trip construct_from_tensor(get_param_tensor()) reproduces w and b: %s" % same)
        if not same:
            fails.append("unique=%s, flat interface: rebuilding from the Packer's own flat tensor "
                         "swaps w and b (rebuilt.w=%s)" % (unique, r2.w.tolist()))

        # original untouched?
        if m.w is not w or m.b is not b:
            fails.append("unique=%s: original object modified" % unique)

    if fails:
        print("FAIL")
        for f in fails:
            print(" -", f)
        sys.exit(1)
    print("PASS")
    sys.exit(0)


if __name__ == "__main__":
    main()
