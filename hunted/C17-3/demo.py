"""
C17 violation 3: a jac operator that is BUILT while the parameters of the
nn.Module (whose method is being differentiated) are temporarily substituted
by another xitorch functional does not list the module parameters among its
own parameters.  Everything downstream that relies on the operator's declared
parameters (xitorch.linalg.solve with an iterative method, symeig, ...) then
silently loses the derivative w.r.t. the module parameters.

Scenario (public API only): jac inside the user function of jac, results fed
to solve before backward:

    class Mod(nn.Module):
        def g(self, x):      return tanh(W x) + 3 x
        def outer(self, x):  return solve(jac(self.g, (x,), 0), c, method="bicgstab") + x**2

    J2 = jac(m.outer, (x,), 0)
    s  = solve(J2, b, method="bicgstab")       # s = (d outer/dx)^-1 b
    ds/dW   <-- wrong

In the backward of the outer solve, J2's parameters (x and W) are substituted
and m.outer is re-evaluated; the inner jac(self.g, ...) made during that
re-evaluation does not see W.
"""
import sys
import warnings
import torch
from xitorch.grad import jac
from xitorch.linalg import solve

warnings.simplefilter("ignore")
torch.manual_seed(0)
dt = torch.double
n = 6
opt = dict(method="bicgstab", rtol=1e-13, atol=1e-13)

class Mod(torch.nn.Module):
    def __init__(self):
        super().__init__()
        self.W = torch.nn.Parameter(torch.randn(n, n, dtype=dt) * 0.3)
        self.c = torch.randn(n, 1, dtype=dt)

    def g(self, x):
        return torch.tanh(self.W @ x) + 3 * x

    def outer(self, x):
        Jg = jac(self.g, (x,), idxs=0)
        return solve(Jg, self.c, bck_options=opt, **opt).reshape(-1) + x ** 2

    # dense reference of the same maths
    def outer_dense(self, x):
        Jg = torch.autograd.functional.jacobian(self.g, x, create_graph=True)
        return torch.linalg.solve(Jg, self.c).reshape(-1) + x ** 2

m = Mod()
x = torch.randn(n, dtype=dt, requires_grad=True)
b = torch.randn(n, 1, dtype=dt)

# dense reference
J2d = torch.autograd.functional.jacobian(m.outer_dense, x, create_graph=True)
s_d = torch.linalg.solve(J2d, b)
gx_d, gW_d = torch.autograd.grad(s_d.sum(), (x, m.W))

# operator route
J2 = jac(m.outer, (x,), idxs=0)
print("max |J2 - J2_dense|      = %.2e" % (J2.fullmatrix() - J2d).abs().max().item())
s = solve(J2, b, bck_options=opt, **opt)
print("max |s - s_dense|        = %.2e" % (s - s_d).abs().max().item())
gx, gW = torch.autograd.grad(s.sum(), (x, m.W))
ex = ((gx - gx_d).abs().max() / gx_d.abs().max()).item()
eW = ((gW - gW_d).abs().max() / gW_d.abs().max()).item()
print("rel. error of d(sum s)/dx = %.2e" % ex)
print("rel. error of d(sum s)/dW = %.2e" % eW)

# control: the same computation when the outer operator is consumed through
# its cached graph (exactsolve uses fullmatrix, no substitution) is right
J2c = jac(m.outer, (x,), idxs=0)
sc = solve(J2c, b, method="exactsolve")
gxc, gWc = torch.autograd.grad(sc.sum(), (x, m.W))
eWc = ((gWc - gW_d).abs().max() / gW_d.abs().max()).item()
print("control (no substitution): rel. error of d/dW = %.2e" % eWc)

fails = []
tol = 1e-6
if ex > tol:
    fails.append("derivative w.r.t. the point x is wrong (rel. err %.2e)" % ex)
if eW > tol:
    fails.append("derivative of the products w.r.t. the module parameter W is wrong "
                 "(rel. err %.2e, control without substitution %.2e)" % (eW, eWc))
if fails:
    print("FAIL")
    for f_ in fails:
        print("  -", f_)
    sys.exit(1)
print("PASS")
sys.exit(0)
