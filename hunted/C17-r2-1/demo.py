r"""
C17 / finding 1: jac and hess refuse an nn.Module whose parameter (or sub-module)
names are not Python identifiers, e.g. nn.ParameterDict({"layer-1": ...}).

torch accepts any non-empty name without a dot for parameters and sub-modules
(ParameterDict / ModuleDict keys, add_module, register_parameter).  xitorch splits
the dotted parameter name with a regular expression that only knows \w characters,
so "pd.layer-1" is looked up as pd -> "layer" -> "1" and the construction of the
operator already raises AttributeError.
"""
import sys
import traceback
import torch
from xitorch.grad import jac, hess

torch.manual_seed(0)
dt = torch.float64


class Net(torch.nn.Module):
    def __init__(self):
        super().__init__()
        self.pd = torch.nn.ParameterDict({
            "layer-1": torch.nn.Parameter(torch.randn(3, dtype=dt)),
        })

    def forward(self, y):
        return torch.sin(self.pd["layer-1"] * y) * y.sum()


class NetSum(torch.nn.Module):
    def __init__(self, net):
        super().__init__()
        self.add_module("inner-net", net)   # legal sub-module name as well

    def forward(self, y):
        return getattr(self, "inner-net")(y).sum()


def main():
    failures = []
    net = Net()
    y = torch.randn(3, dtype=dt, requires_grad=True)
    w = net.pd["layer-1"]
    g = torch.randn(3, dtype=dt)

    # reference: dense Jacobian / Hessian from torch
    Jd = torch.autograd.functional.jacobian(lambda yy: net(yy), y, create_graph=True)
    Hd = torch.autograd.functional.hessian(lambda yy: net(yy).sum(), y, create_graph=True)
    print("module parameters:", [n for n, _ in net.named_parameters()])

    # ---- jac
    try:
        J = jac(net, (y,), 0)
        ok = tuple(J.shape) == (3, 3) and torch.allclose(J.fullmatrix(), Jd) and \
            torch.allclose(J.mv(g), Jd @ g) and torch.allclose(J.rmv(g), Jd.T @ g)
        gw, = torch.autograd.grad(J.mv(g).sum(), w)
        gw0, = torch.autograd.grad((Jd @ g).sum(), w, retain_graph=True)
        ok = ok and torch.allclose(gw, gw0)
        print("jac products equal the dense Jacobian:", ok)
        if not ok:
            failures.append("jac products differ from the dense Jacobian")
    except Exception as e:
        traceback.print_exc()
        failures.append("jac(net, (y,), 0) raised %s: %s" % (type(e).__name__, e))

    # ---- hess (sub-module with a non-identifier name)
    try:
        H = hess(NetSum(net), (y,), 0)
        ok = tuple(H.shape) == (3, 3) and torch.allclose(H.fullmatrix(), Hd) and \
            torch.allclose(H.mv(g), Hd @ g)
        print("hess products equal the dense Hessian:", ok)
        if not ok:
            failures.append("hess products differ from the dense Hessian")
    except Exception as e:
        traceback.print_exc()
        failures.append("hess(NetSum(net), (y,), 0) raised %s: %s" % (type(e).__name__, e))

    if failures:
        print("FAIL: an nn.Module with non-identifier parameter/sub-module names is not handled:")
        for f in failures:
            print("   -", f)
        return 1
    print("PASS")
    return 0


if __name__ == "__main__":
    sys.exit(main())
