"""
C19 violation 2: solve() and symeig() (and svd(), which goes through symeig) store
the LinearOperator objects A and M as plain attributes of their autograd node
(ctx.A = A, ctx.M = M).  A per-iteration operator that keeps something computed
from the result - the usual "remember the eigenvectors / the solution as the next
initial guess or for a later loss term" - therefore closes a reference cycle
   operator -> tensor -> grad_fn ... -> solve/symeig node -> ctx.A -> operator
through C++ autograd nodes.  Nothing of the call is freed when operator and outputs
are dropped, and gc.collect() cannot reclaim it either: memory grows with every
iteration of a loop.

Control: symeig(method="exacteig") does not go through the autograd.Function (it is
plain torch ops on A.fullmatrix()), and the very same user code leaks nothing.
"""
import gc
import sys
import warnings
import torch
from xitorch import LinearOperator
from xitorch.linalg import solve, symeig

warnings.simplefilter("ignore")
dt = torch.float64
n = 8

def live_tensor_ids():
    return set(id(o) for o in gc.get_objects() if isinstance(o, torch.Tensor))

class Hamiltonian(LinearOperator):
    def __init__(self, mat):
        super().__init__(shape=mat.shape, is_hermitian=True, dtype=mat.dtype, device=mat.device)
        self.mat = mat
        self.guess = None
    def _mv(self, x):
        return torch.matmul(self.mat, x.unsqueeze(-1)).squeeze(-1)
    def _getparamnames(self, prefix=""):
        return [prefix + "mat"]

torch.manual_seed(0)
A0 = torch.randn(n, n, dtype=dt)
A0 = ((A0 + A0.T) * 0.2 + torch.eye(n, dtype=dt) * 4).requires_grad_()
B0 = torch.randn(n, 2, dtype=dt, requires_grad=True)

def call_symeig(method):
    H = Hamiltonian(A0)                       # operator of this iteration
    evals, evecs = symeig(H, neig=2, method=method)
    H.guess = evecs / evecs.norm()             # kept on the operator (differentiable)

def call_solve(method):
    H = Hamiltonian(A0)
    x = solve(H, B0, method=method)
    H.guess = x * 1.0

def measure(fn, nrep=5):
    fn()  # warm up
    gc.collect()
    gc.disable()
    try:
        base = live_tensor_ids()
        counts = []
        for _ in range(nrep):
            fn()
            counts.append(len(live_tensor_ids() - base))
        gc.collect()
        after_gc = len(live_tensor_ids() - base)
    finally:
        gc.enable()
    return counts, after_gc

cases = [
    ("control symeig/exacteig", lambda: call_symeig("exacteig")),
    ("symeig/davidson", lambda: call_symeig("davidson")),
    ("symeig/custom_exacteig", lambda: call_symeig("custom_exacteig")),
    ("solve/cg", lambda: call_solve("cg")),
    ("solve/bicgstab", lambda: call_solve("bicgstab")),
    ("solve/gmres", lambda: call_solve("gmres")),
]
bad = []
for name, fn in cases:
    counts, after_gc = measure(fn)
    print("%-26s live tensors left after each of 5 calls (gc disabled): %s ; after gc.collect(): %d"
          % (name, counts, after_gc))
    if name.startswith("control"):
        assert counts[-1] == 0, "the control itself leaks - the demo is broken"
    elif counts[-1] != 0:
        bad.append((name, counts, after_gc))

if bad:
    print("FAIL: after the operator and every output of the call were dropped, tensors allocated "
          "during the call stay alive and accumulate call after call: %s" % bad)
    if any(b[2] != 0 for b in bad):
        print("      (gc.collect() does not reclaim them either)")
    sys.exit(1)
print("PASS")
sys.exit(0)
