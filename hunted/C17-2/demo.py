"""
C17 violation 2: when the (true) Jacobian / Hessian block is identically zero
because the graph of the output (resp. of the gradient) does not contain the
selected argument, jac/hess raise instead of returning the zero operator.
Typical: Hessian of a function that is linear in the selected argument
(bilinear forms), or idxs=None with one differentiable argument that the
function does not use.
"""
import sys
import torch
from xitorch.grad import jac, hess

torch.manual_seed(0)
dt = torch.double
fails = []

x = torch.randn(3, dtype=dt, requires_grad=True)
y = torch.randn(2, dtype=dt, requires_grad=True)
A = torch.randn(3, 2, dtype=dt)

def check(op, dense, what):
    ok = tuple(op.shape) == tuple(dense.shape)
    v = torch.randn(2, dense.shape[1], dtype=dt)
    u = torch.randn(2, dense.shape[0], dtype=dt)
    ok = ok and torch.allclose(op.fullmatrix(), dense)
    ok = ok and torch.allclose(op.mv(v), v @ dense.T)
    ok = ok and torch.allclose(op.rmv(u), u @ dense)
    ok = ok and torch.allclose(op.H.fullmatrix(), dense.T)
    if not ok:
        fails.append("%s: products differ from the dense ones" % what)

# ---- (a) Hessian of a bilinear energy: e(x, y) = x^T A y + |x|^2 ----
def e(x, y):
    return x @ A @ y + (x ** 2).sum()

Hd_y = torch.autograd.functional.hessian(lambda y_: e(x, y_), y)   # zeros (2,2)
print("(a) dense Hessian w.r.t. y of x^T A y + |x|^2:\n", Hd_y)
try:
    H = hess(e, (x, y), idxs=1)
    check(H, Hd_y, "(a) hess idxs=1")
    print("    hess(...,idxs=1).fullmatrix():\n", H.fullmatrix().detach())
except Exception as ex:
    print("    hess(e, (x, y), idxs=1) raised %s: %s" % (type(ex).__name__, str(ex)[:110]))
    fails.append("(a) hess w.r.t. an argument in which the function is linear raises %s "
                 "instead of giving the zero (2x2) Hessian" % type(ex).__name__)

# the same call with idxs=None: one cannot even get the (non-zero) x block
try:
    Hs = hess(e, (x, y))
    check(Hs[0], torch.autograd.functional.hessian(lambda x_: e(x_, y), x), "(a') hess idxs=None [0]")
    check(Hs[1], Hd_y, "(a') hess idxs=None [1]")
except Exception as ex:
    print("    hess(e, (x, y)) [idxs=None] raised %s" % type(ex).__name__)
    fails.append("(a') hess(..., idxs=None) raises %s because of the zero block" % type(ex).__name__)

# ---- (b) jac w.r.t. a differentiable argument the function does not use ----
def f(x, y):
    return torch.sin(x)            # shape (3,), independent of y

Jd_y = torch.autograd.functional.jacobian(lambda y_: f(x, y_), y)   # zeros (3,2)
try:
    Js = jac(f, (x, y))            # idxs=None: "all parameters that are tensors which require grad"
    check(Js[0], torch.autograd.functional.jacobian(lambda x_: f(x_, y), x), "(b) jac idxs=None [0]")
    check(Js[1], Jd_y, "(b) jac idxs=None [1]")
except Exception as ex:
    print("(b) jac(f, (x, y)) with f independent of y raised %s: %s" % (type(ex).__name__, str(ex)[:110]))
    fails.append("(b) jac(..., idxs=None) raises %s when one differentiable argument is unused "
                 "(true Jacobian: zeros(3,2))" % type(ex).__name__)

# ---- (c) jac of a function whose output is a constant tensor ----
def c(x):
    return torch.ones(2, dtype=dt)
try:
    J = jac(c, (x,), idxs=0)
    check(J, torch.zeros(2, 3, dtype=dt), "(c) constant output")
except Exception as ex:
    print("(c) jac of a constant function raised %s: %s" % (type(ex).__name__, str(ex)[:110]))
    fails.append("(c) jac of a constant-output function raises %s (true Jacobian: zeros(2,3))" % type(ex).__name__)

if fails:
    print("FAIL")
    for s in fails:
        print("  -", s)
    sys.exit(1)
print("PASS")
sys.exit(0)
