"""C20 demo 3: order of method calls on one Packer.
After get_param_tensor_list(unique) (but no get_param_tensor(unique)), the flat
interface construct_from_tensor(a, unique) neither rebuilds the structure nor
rejects the call with its documented RuntimeError("Please execute
self.get_param_tensor(..) first"): it trips over a half-filled cache and dies
with an internal `AssertionError: Please report to Github`."""
import sys
import torch
from xitorch._core.packer import Packer


def main():
    fails = []
    for unique in (True, False):
        a = torch.tensor([1.0, 2.0])
        b = torch.tensor([[3.0], [4.0], [5.0]])
        obj = {"a": a, "l": [b, 7, "x"]}

        # reference behaviour: nothing called before -> documented rejection
        p0 = Packer(obj)
        try:
            p0.construct_from_tensor(torch.zeros(5), unique=unique)
            ref = "returned"
        except RuntimeError as e:
            ref = "RuntimeError: %s" % e
        except BaseException as e:
            ref = "%s: %s" % (type(e).__name__, e)
        print("unique=%s  fresh Packer, construct_from_tensor        -> %s" % (unique, ref))

        # history: the list getter was used, then the flat constructor
        p = Packer(obj)
        ts = p.get_param_tensor_list(unique=unique)
        flat = torch.cat([t.reshape(-1) for t in ts]) * 10     # a legitimate flat vector, numel 5
        try:
            r = p.construct_from_tensor(flat, unique=unique)
        except RuntimeError as e:
            print("unique=%s  after get_param_tensor_list, construct_from_tensor -> RuntimeError: %s (a proper rejection)"
                  % (unique, e))
            continue
        except BaseException as e:
            print("unique=%s  after get_param_tensor_list, construct_from_tensor -> %s: %s"
                  % (unique, type(e).__name__, e))
            fails.append("unique=%s: construct_from_tensor after get_param_tensor_list raised %s(%r) "
                         "instead of rebuilding or rejecting with RuntimeError" % (unique, type(e).__name__, str(e)))
            continue
        ok = (torch.equal(r["a"], a * 10) and torch.equal(r["l"][0], b * 10)
              and r["l"][1:] == [7, "x"] and obj["a"] is a and obj["l"][0] is b)
        print("unique=%s  after get_param_tensor_list, construct_from_tensor -> rebuilt, correct=%s" % (unique, ok))
        if not ok:
            fails.append("unique=%s: wrong rebuild" % unique)

    if fails:
        print("FAIL")
        for f in fails:
            print(" -", f)
        sys.exit(1)
    print("PASS")
    sys.exit(0)


if __name__ == "__main__":
    main()
