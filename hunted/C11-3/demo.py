"""
C11 violation 3: batch broadcasting with an empty (size-0) batch dimension.
xitorch/_utils/bcast.py:get_bcasted_dims "broadcasts" with max(), so 0 vs 1 gives
1 instead of 0.  For an operator defined from _mv alone (rmv through the adjoint
trick) and every expression built on it:
  * rmv of an empty batch of vectors / rmm of a matrix with zero columns raise,
    while mv/mm accept the same batch shapes and the dense-wrapped operator with
    the same matrix returns the correctly shaped empty result;
  * with an empty batch of operators, rmv and .H.fullmatrix() silently return a
    batch of size 1 (of zeros) instead of size 0, and the .shape of A0 + B1 is
    (1,p,q) while its fullmatrix() is (0,p,q).
"""
import sys
import warnings
import torch
from xitorch import LinearOperator

warnings.simplefilter("ignore")
torch.manual_seed(0)
dt = torch.float64

class MvOnly(LinearOperator):
    def __init__(self, mat):
        super().__init__(shape=tuple(mat.shape), dtype=mat.dtype, device=mat.device)
        self.mat = mat

    def _mv(self, x):
        return torch.matmul(self.mat, x.unsqueeze(-1)).squeeze(-1)

    def _getparamnames(self, prefix=""):
        return [prefix + "mat"]

fails = []

def compare(tag, fcn_test, fcn_ref):
    ref = fcn_ref()
    try:
        got = fcn_test()
    except Exception as e:
        print("  %-44s raised %s: %s" % (tag, type(e).__name__, str(e)[:70]))
        fails.append(tag)
        return
    ok = tuple(got.shape) == tuple(ref.shape)
    print("  %-44s shape %s, dense reference %s  %s" %
          (tag, tuple(got.shape), tuple(ref.shape), "ok" if ok else "WRONG"))
    if not ok:
        fails.append(tag)

m = torch.randn(2, 3, dtype=dt)
A, D = MvOnly(m), LinearOperator.m(m)
print("operator (2,3) from _mv alone vs. dense wrap of the same matrix")
x0 = torch.zeros(0, 3, dtype=dt)
X0 = torch.zeros(3, 0, dtype=dt)
y0 = torch.zeros(0, 2, dtype=dt)
Y0 = torch.zeros(2, 0, dtype=dt)
compare("mv  of x (0,3)", lambda: A.mv(x0), lambda: D.mv(x0))
compare("mm  of X (3,0)", lambda: A.mm(X0), lambda: D.mm(X0))
compare("rmv of y (0,2)", lambda: A.rmv(y0), lambda: D.rmv(y0))
compare("rmm of Y (2,0)", lambda: A.rmm(Y0), lambda: D.rmm(Y0))
compare("A.H.mv of y (0,2)", lambda: A.H.mv(y0), lambda: D.H.mv(y0))
compare("(2*A).rmm of Y (2,0)", lambda: (2 * A).rmm(Y0), lambda: (2 * D).rmm(Y0))

print("empty batch of operators, shape (0,2,3)")
m0 = torch.randn(0, 2, 3, dtype=dt)
A0, D0 = MvOnly(m0), LinearOperator.m(m0)
y = torch.ones(2, dtype=dt)
compare("mv  of x (3,)", lambda: A0.mv(torch.ones(3, dtype=dt)), lambda: D0.mv(torch.ones(3, dtype=dt)))
compare("rmv of y (2,)", lambda: A0.rmv(y), lambda: D0.rmv(y))
compare("A0.H.fullmatrix()", lambda: A0.H.fullmatrix(), lambda: D0.H.fullmatrix())
S = A0 + MvOnly(torch.randn(1, 2, 3, dtype=dt))
fm = S.fullmatrix()
ok = tuple(S.shape) == tuple(fm.shape)
print("  %-44s .shape %s, fullmatrix().shape %s  %s" %
      ("A0 (0,2,3) + B1 (1,2,3)", tuple(S.shape), tuple(fm.shape), "ok" if ok else "WRONG"))
if not ok:
    fails.append("shape attribute of the sum")

if fails:
    print("FAIL: products do not broadcast consistently over an empty batch dimension:", fails)
    sys.exit(1)
print("PASS")
sys.exit(0)
