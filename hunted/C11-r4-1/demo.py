"""
C11 / finding 1: the Hermitian flag of a wrapped dense matrix is decided once,
from the values the tensor holds at wrap time, but the operator keeps the
caller's tensor by reference.  A trainable matrix that starts symmetric
(identity initialisation) and is then updated by an optimizer step keeps
is_hermitian=True for ever: rmv / rmm / .H silently apply A instead of A^H,
while mv / mm / fullmatrix describe the updated, non-symmetric matrix.
"""
import sys
import torch
import xitorch
from xitorch import LinearOperator

torch.manual_seed(0)
dt = torch.float64
n = 3

W = torch.nn.Parameter(torch.eye(n, dtype=dt))      # identity initialisation
A = LinearOperator.m(W)                             # built once, before the loop
opt = torch.optim.SGD([W], lr=0.1)

x = torch.randn(n, dtype=dt)
target = torch.randn(n, dtype=dt)
loss = ((A.mv(x) - target) ** 2).sum()              # one ordinary training step
loss.backward()
opt.step()
opt.zero_grad()

y = torch.randn(n, dtype=dt)
Y = torch.randn(n, 2, dtype=dt)
problems = []
with torch.no_grad():
    M = A.fullmatrix()
    # mv / mm / fullmatrix agree on the (updated) matrix
    assert torch.allclose(A.mv(x), M @ x)
    assert torch.allclose(M, W)
    sym_err = (M - M.T).abs().max().item()
    if sym_err < 1e-6:
        print("the step left the matrix symmetric; demo not applicable")
        sys.exit(0)

    def probe(name, fcn, expected):
        try:
            got = fcn()
        except RuntimeError as e:  # rejecting the stale flag loudly is fine
            print("%s raised (acceptable): %s" % (name, str(e)[:80]))
            return
        err = (got - expected).abs().max().item()
        if err > 1e-9:
            problems.append("%s differs from the conjugate transpose of fullmatrix() by %.3e" % (name, err))

    probe("rmv(y)", lambda: A.rmv(y), M.T.conj() @ y)
    probe("rmm(Y)", lambda: A.rmm(Y), M.T.conj() @ Y)
    probe("H.fullmatrix()", lambda: A.H.fullmatrix(), M.T.conj())
    probe("H.mv(y)", lambda: A.H.mv(y), M.T.conj() @ y)

if problems:
    print("wrapped matrix after one SGD step: |M - M^T|max = %.3e, is_hermitian = %s" % (sym_err, A.is_hermitian))
    for p in problems:
        print("VIOLATION:", p)
    sys.exit(1)
print("ok")
sys.exit(0)
