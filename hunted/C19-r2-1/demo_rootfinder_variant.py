"""
Same root cause as demo.py, seen through rootfinder: an nn.Module with a FROZEN layer
(requires_grad=False) and a third differentiation order done with .backward(create_graph=True).
The backward of rootfinder calls solve(jac.H, ...); the _Jac operator lists all tensors of the
module, frozen ones included, and solve's backward turns their clones into private leaves.

Run:  cd /tmp/wt5_C19 && PYTHONPATH=/tmp/wt5_C19 /venv/bin/python demo_rootfinder_variant.py
exit 1 = violation present, exit 0 = PASS
"""
import gc
import sys
import warnings
import torch
from xitorch.optimize import rootfinder

warnings.simplefilter("ignore")
torch.manual_seed(0)
torch.set_default_dtype(torch.float64)
n = 7    # more than 5 unknowns: the backward solve is iterative (goes through solve_torchfcn)


class Net(torch.nn.Module):
    def __init__(self):
        super().__init__()
        self.l1 = torch.nn.Linear(n, n)
        self.l2 = torch.nn.Linear(n, n)
        for p in self.l1.parameters():
            p.requires_grad_(False)           # frozen feature layer

    def forward(self, y, b):
        return torch.tanh(self.l2(torch.tanh(self.l1(y.T))).T * 0.3 + b) + y / 2.0


net = Net()
b = torch.randn(n, 1).requires_grad_()
y0 = torch.zeros(n, 1)
leaves = [b] + [p for p in net.parameters() if p.requires_grad]


def live():
    return len([o for o in gc.get_objects() if isinstance(o, torch.Tensor)])


def step():
    y = rootfinder(net, y0, params=(b,))
    g1 = torch.autograd.grad((y ** 2).sum(), leaves, create_graph=True)
    g2 = torch.autograd.grad(sum((g ** 2).sum() for g in g1), leaves, create_graph=True)
    sum((g ** 2).sum() for g in g2).backward(create_graph=True)
    for p in net.parameters():
        p.grad = None
    b.grad = None


step()
gc.collect()
gc.disable()
n0 = live()
counts = []
for i in range(3):
    step()
    counts.append(live() - n0)
gc.enable()
gc.collect()
after = live() - n0
print("extra live tensors after steps 1..3 (gc disabled): %s ; after gc.collect(): %d" % (counts, after))
if counts[-1] > 0 or after > 0:
    print("FAIL: rootfinder calls leave tensors alive after everything was released")
    sys.exit(1)
print("PASS")
sys.exit(0)
