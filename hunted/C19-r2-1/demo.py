"""
C19 demo 1: solve / symeig leak tensors (uncollectable, growing per call) when the
LinearOperator has a tensor parameter that does NOT require grad next to one that
does, and the last backward pass is a graph-recording one made with the
accumulating API ( .backward(create_graph=True) ).

Run:  cd /tmp/wt5_C19 && PYTHONPATH=/tmp/wt5_C19 /venv/bin/python demo.py
exit 1 = violation present (FAIL), exit 0 = PASS
"""
import gc
import sys
import warnings
import torch
import xitorch
from xitorch.linalg import solve, symeig

warnings.simplefilter("ignore")   # torch warns that backward(create_graph=True) needs the grads to be reset: we do reset them
torch.manual_seed(0)
dtype = torch.float64
n = 8


class ScaledKernel(xitorch.LinearOperator):
    """A = diag(w) K diag(w): K is a fixed (non-trainable) kernel, w is trainable."""

    def __init__(self, K, w):
        super().__init__(shape=K.shape, is_hermitian=True, dtype=K.dtype, device=K.device)
        self.K = K   # constant tensor, requires_grad=False
        self.w = w   # requires_grad=True

    def _mv(self, x):
        # x: (..., n)
        return self.w * torch.matmul(self.K, (self.w * x).unsqueeze(-1)).squeeze(-1)

    def _getparamnames(self, prefix=""):
        # both tensors affect the operator, so both are listed (as the docstring asks)
        return [prefix + "K", prefix + "w"]


Kh = torch.randn(n, n, dtype=dtype) * 0.1
K = Kh @ Kh.T + torch.eye(n, dtype=dtype)             # constant SPD kernel (no grad)
w = (torch.rand(n, dtype=dtype) + 1.0).requires_grad_()
B = torch.randn(n, 2, dtype=dtype).requires_grad_()
A = ScaledKernel(K, w)                                  # the operator lives as long as the training loop


def live_tensors():
    return [o for o in gc.get_objects() if isinstance(o, torch.Tensor)]


def tensor_bytes():
    seen, tot = set(), 0
    for t in live_tensors():
        if t.is_sparse:
            continue
        st = t.untyped_storage()
        if st.data_ptr() in seen:
            continue
        seen.add(st.data_ptr())
        tot += st.nbytes()
    return tot


def training_step(which):
    # forward
    if which == "solve":
        x = solve(A, B, method="cg")                    # (n, 2)
    else:
        x = symeig(A, neig=2, method="davidson")[1]     # eigenvectors (n, 2)
    # first backward pass, graph-recording (sensitivity of the solution w.r.t. w)
    g, = torch.autograd.grad((x ** 2).sum(), w, create_graph=True)
    # loss that contains the sensitivity; second backward pass, graph-recording too
    # (what e.g. a second-order optimizer does: loss.backward(create_graph=True))
    loss = (g ** 2).sum()
    loss.backward(create_graph=True)
    # release every output and every gradient of the step
    w.grad = None
    B.grad = None
    del x, g, loss


fail = False
for which in ("solve", "symeig"):
    training_step(which)       # warm up (one-off allocations of torch itself)
    gc.collect()
    gc.disable()
    n0, b0 = len(live_tensors()), tensor_bytes()
    counts, sizes = [], []
    for it in range(5):
        training_step(which)
        counts.append(len(live_tensors()) - n0)
        sizes.append(tensor_bytes() - b0)
    gc.enable()
    gc.collect()               # even the cyclic collector cannot free them
    n_after, b_after = len(live_tensors()) - n0, tensor_bytes() - b0
    print("%-6s: extra live tensors after steps 1..5 (gc disabled): %s" % (which, counts))
    print("%-6s: extra tensor bytes  after steps 1..5 (gc disabled): %s" % (which, sizes))
    print("%-6s: after gc.collect(): %d extra tensors, %d extra bytes" % (which, n_after, b_after))
    if counts[-1] > 0 or n_after > 0:
        fail = True

if fail:
    print("FAIL: tensors allocated during solve/symeig calls stay alive after all outputs and "
          "gradients were released; the number grows with every call and gc.collect() does not reclaim them")
    sys.exit(1)
print("PASS: no tensor survives the release of the outputs and gradients")
sys.exit(0)
