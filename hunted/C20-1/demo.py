"""C20 violation 1: get_param_tensor_list(unique=False) hands out the Packer's
internal cache list, so editing the returned list modifies the Packer."""
import sys
import torch
from xitorch import Packer

a = torch.tensor([1., 2.])
b = torch.tensor([3.])
obj = {"x": a, "y": [b, a]}          # tensor slots: a, b, a
packer = Packer(obj)

# A very ordinary usage: take the list, edit it in place, rebuild.
params = packer.get_param_tensor_list(unique=False)
for i in range(len(params)):
    params[i] = params[i] * 2        # the user edits *his own* list
new_obj = packer.construct_from_tensor_list(params, unique=False)
params.pop()                         # ... and keeps using his list

problems = []

again = packer.get_param_tensor_list(unique=False)
print("2nd non-unique listing:", again)
if len(again) != 3 or not (again[0] is a and again[1] is b and again[2] is a):
    problems.append("after the user edited the list that was returned to him, "
                    "get_param_tensor_list(unique=False) no longer returns [a, b, a] "
                    "(got %d entries, entry0 is a: %s)" % (len(again), len(again) > 0 and again[0] is a))

uniq = packer.get_param_tensor_list(unique=True)
print("unique listing        :", uniq)
if len(uniq) != 2 or not (uniq[0] is a and uniq[1] is b):
    problems.append("unique listing is no longer [a, b]: %s" % (uniq,))

try:
    n = [torch.zeros(2), torch.zeros(1), torch.ones(2)]
    packer.get_param_tensor_list(unique=False)
    o = packer.construct_from_tensor_list(n, unique=False)
    if not (o["x"] is n[0] and o["y"][0] is n[1] and o["y"][1] is n[2]):
        problems.append("rebuild after the edit puts tensors at wrong places: %s" % (o,))
except Exception as e:
    problems.append("a correct 3-tensor list is now rejected: %s: %s" % (type(e).__name__, e))

if problems:
    print("FAIL: the Packer was modified through the list it returned:")
    for p in problems:
        print("  -", p)
    sys.exit(1)
print("PASS")
sys.exit(0)
