"""
C19 violation 1: the autograd node of every PureFunction-based functional
(rootfinder / equilibrium / minimize / quad / solve_ivp / mcquad) keeps a strong
reference to the user's function object (ctx.fcn / ctx.pfcn / ctx.ffcn).  If the
object whose method was solved keeps anything differentiable that was computed
from the result (the residual, an energy, the solution itself for a warm start...)
the chain   object -> tensor -> grad_fn ... -> functional's node -> ctx.fcn -> object
is a reference cycle.  When the derived tensor is not the direct output, the cycle
passes through C++ autograd nodes that the Python collector cannot see, so the
tensors of the call are never freed - not even by gc.collect().

The same two lines with a plain torch computation instead of the functional free
everything by reference counting alone.
"""
import gc
import sys
import warnings
import torch
from xitorch import EditableModule
from xitorch.optimize import rootfinder, equilibrium, minimize
from xitorch.integrate import quad, solve_ivp

warnings.simplefilter("ignore")
dt = torch.float64
n = 8

def live_tensor_ids():
    return set(id(o) for o in gc.get_objects() if isinstance(o, torch.Tensor))

class Model(EditableModule):
    def __init__(self, a):
        self.a = a
        self.resid = None
    def forward(self, y):
        return self.a * y ** 3 - 1 + y
    def eq(self, y):
        return torch.tanh(self.a * y) * 0.5 + 0.1
    def energy(self, y):
        return ((y - self.a) ** 2).sum()
    def f(self, x):
        return torch.exp(-self.a * x * x)
    def ode(self, t, y):
        return -self.a * y
    def getparamnames(self, methodname, prefix=""):
        return [prefix + "a"]

class TorchModel(torch.nn.Module):
    # control: same bookkeeping, but the "solution" comes from plain torch ops
    def __init__(self, a):
        super().__init__()
        self.a = a
        self.resid = None
    def forward(self, y):
        return self.a * y ** 3 - 1 + y

a = torch.linspace(0.7, 2.0, n, dtype=dt).requires_grad_()
y0 = torch.ones(n, dtype=dt)
ts = torch.linspace(0, 1, 4, dtype=dt)
xl = torch.tensor(0.0, dtype=dt)
xu = torch.tensor(1.0, dtype=dt)

def one_call(solve_it):
    # a per-iteration model, as is usual for xitorch objects built from the
    # current parameters; everything created here is released on return
    model = Model(a)
    y = solve_it(model)
    # keep a diagnostic of the solution on the model (differentiable, e.g. to be
    # added to the loss later)
    model.resid = (y * y).sum()

def control_call():
    model = TorchModel(a)
    y = torch.tanh(model.a * y0)          # stands for "some differentiable solution"
    model.resid = (y * y).sum()

def measure(fn, nrep=5):
    fn()  # warm up
    gc.collect()
    gc.disable()
    try:
        base = live_tensor_ids()
        counts = []
        for _ in range(nrep):
            fn()
            counts.append(len(live_tensor_ids() - base))
        gc.collect()
        after_gc = len(live_tensor_ids() - base)
    finally:
        gc.enable()
    return counts, after_gc

cases = [
    ("control (plain torch)", control_call),
    ("rootfinder", lambda: one_call(lambda m: rootfinder(m.forward, y0))),
    ("equilibrium", lambda: one_call(lambda m: equilibrium(m.eq, y0))),
    ("minimize", lambda: one_call(lambda m: minimize(m.energy, y0))),
    ("quad", lambda: one_call(lambda m: quad(m.f, xl, xu))),
    ("solve_ivp", lambda: one_call(lambda m: solve_ivp(m.ode, ts, y0))),
]
bad = []
for name, fn in cases:
    counts, after_gc = measure(fn)
    print("%-24s live tensors left after each of 5 calls (gc disabled): %s ; after gc.collect(): %d"
          % (name, counts, after_gc))
    if name.startswith("control"):
        assert counts[-1] == 0, "the control itself leaks - the demo is broken"
    elif counts[-1] != 0:
        bad.append((name, counts, after_gc))

if bad:
    print("FAIL: after the model and every output of the call were dropped, tensors allocated "
          "during the call are still alive and their number grows with every call: %s" % bad)
    if any(b[2] != 0 for b in bad):
        print("      (they are not even reclaimed by gc.collect(): the cycle passes through "
              "C++ autograd nodes)")
    sys.exit(1)
print("PASS")
sys.exit(0)
