"""
C11 / finding 2: LinearOperator.__init__ keeps the caller's `shape` list by
reference.  A caller that re-uses (edits) its own list to build the next
operator silently changes the shape of every operator built from it before:
valid products of the first operator are then rejected and fullmatrix() is
built from an identity of the wrong size.
"""
import sys
import torch
import xitorch
from xitorch import LinearOperator

torch.manual_seed(0)

class Diag(LinearOperator):
    # diagonal operator defined from its matrix-vector product alone
    def __init__(self, d, shape):
        super().__init__(shape=shape, dtype=d.dtype)
        self.d = d

    def _mv(self, x):
        return self.d * x

    def _getparamnames(self, prefix=""):
        return [prefix + "d"]

d3 = torch.arange(1., 4., dtype=torch.float64)
d5 = torch.arange(1., 6., dtype=torch.float64)

shape = [3, 3]                 # shapes given as lists are accepted by the library
D3 = Diag(d3, shape)
ref = torch.diag(d3)
x = torch.randn(3, dtype=torch.float64)
assert torch.allclose(D3.fullmatrix(), ref) and torch.allclose(D3.mv(x), ref @ x)

# the caller builds a second, larger operator re-using its own list
shape[-2] = 5
shape[-1] = 5
D5 = Diag(d5, shape)
assert torch.allclose(D5.fullmatrix(), torch.diag(d5))

problems = []
if tuple(D3.shape) != (3, 3):
    problems.append("D3.shape changed from (3, 3) to %s after another operator was built" % (tuple(D3.shape),))
for name, fcn, expected in [
        ("D3.mv(x)", lambda: D3.mv(x), ref @ x),
        ("D3.rmv(x)", lambda: D3.rmv(x), ref.T @ x),
        ("D3.mm(X)", lambda: D3.mm(x.unsqueeze(-1)), ref @ x.unsqueeze(-1)),
        ("D3.fullmatrix()", lambda: D3.fullmatrix(), ref),
        ("(D3 + D3).fullmatrix()", lambda: (D3 + D3).fullmatrix(), 2 * ref),
        ("(2 * D3).mv(x)", lambda: (2 * D3).mv(x), 2 * ref @ x)]:
    try:
        got = fcn()
    except Exception as e:
        problems.append("%s: a valid product of the untouched 3x3 operator raises %s: %s" %
                        (name, type(e).__name__, str(e)[:90]))
        continue
    if got.shape != expected.shape or not torch.allclose(got, expected):
        problems.append("%s: wrong result (shape %s)" % (name, tuple(got.shape)))

# silent variant: an operator whose product has no intrinsic size (c * x)
class Scale(LinearOperator):
    def __init__(self, c, shape):
        super().__init__(shape=shape, dtype=torch.float64)
        self.c = c

    def _mv(self, x):
        return self.c * x

    def _getparamnames(self, prefix=""):
        return []

shp = [2, 2]
S2 = Scale(3.0, shp)
full_before = S2.fullmatrix()
shp[-2:] = [4, 4]
S4 = Scale(3.0, shp)
full_after = S2.fullmatrix()
if full_after.shape != full_before.shape:
    problems.append("S2.fullmatrix() silently changed from shape %s to %s" %
                    (tuple(full_before.shape), tuple(full_after.shape)))

if problems:
    for p in problems:
        print("VIOLATION:", p)
    sys.exit(1)
print("ok")
sys.exit(0)
