"""
C10 / finding 1
A backward pass of a xitorch functional that runs while the user's nn.Module is
inside torch.func.functional_call (stateless call with plain tensors in the
parameter slots) moves those tensors from module._parameters into
module.__dict__.  When functional_call ends, torch puts the real Parameters
back into _parameters, but the stale __dict__ entries keep shadowing them:
``net.w`` is no longer the registered Parameter, forward() silently uses the
wrong weights from then on, and the dict the caller passed to functional_call
is overwritten with None.
"""
import sys
import warnings
import torch
from torch.func import functional_call
from xitorch.optimize import rootfinder

warnings.simplefilter("ignore")
torch.manual_seed(0)
dt = torch.double


class Net(torch.nn.Module):
    def __init__(self):
        super().__init__()
        self.w = torch.nn.Parameter(torch.randn(3, 3, dtype=dt) * 0.3)
        self.b = torch.nn.Parameter(torch.randn(3, dtype=dt) * 0.3)

    def resid(self, y, x):
        return torch.tanh(y @ self.w + self.b + x) * 0.3 - y

    inner_grad = True

    def forward(self, x):
        if not self.inner_grad:
            # control: same implicit layer, the backward pass is run by the
            # caller after functional_call has returned
            return rootfinder(self.resid, torch.zeros(3, dtype=dt), params=(x,))
        # implicit layer + derivative of its output w.r.t. the input, taken
        # inside forward (e.g. force = -dE/dx): the xitorch backward runs here
        y = rootfinder(self.resid, torch.zeros(3, dtype=dt), params=(x,))
        e = (y ** 2).sum()
        dedx, = torch.autograd.grad(e, x, create_graph=True)
        return dedx


def registered(net):
    return [(n, id(p)) for n, p in net.named_parameters()]


# control experiment: backward outside functional_call leaves the module alone
ctrl = Net()
ctrl.inner_grad = False
cw, cb = ctrl.w, ctrl.b
xc = torch.tensor([0.1, 0.2, 0.3], dtype=dt, requires_grad=True)
cgiven = {"w": (cw.detach() * 1.1).requires_grad_(), "b": (cb.detach() + 0.1).requires_grad_()}
yc = functional_call(ctrl, cgiven, (xc,))
yc.sum().backward()
assert ctrl.w is cw and ctrl.b is cb and "w" not in ctrl.__dict__ and cgiven["w"] is not None, \
    "control experiment failed: the demo itself is not sound"
print("control (backward after functional_call returned): module untouched")

torch.manual_seed(0)
net = Net()
w0, b0 = net.w, net.b
x = torch.tensor([0.1, 0.2, 0.3], dtype=dt, requires_grad=True)

# reference: what the module computes with its own parameters
ref = net.resid(x.detach(), x.detach()).detach()

before = registered(net)
fast_w = (w0.detach() * 1.1).requires_grad_()   # e.g. fast weights of a meta-learning step
fast_b = (b0.detach() + 0.1).requires_grad_()
given = {"w": fast_w, "b": fast_b}
out = functional_call(net, given, (x,))
after = registered(net)

problems = []
if before != after:
    problems.append("named_parameters() changed: %s -> %s" % (before, after))
if net.w is not w0:
    what = "the tensor given to functional_call" if net.w is fast_w else "another tensor"
    problems.append("net.w is no longer the registered Parameter but %s "
                    "('w' in net.__dict__: %s)" % (what, "w" in net.__dict__))
if net.b is not b0:
    problems.append("net.b is no longer the registered Parameter ('b' in net.__dict__: %s)"
                    % ("b" in net.__dict__))
now = net.resid(x.detach(), x.detach()).detach()
if not torch.equal(now, ref):
    problems.append("the module now computes different values with unchanged registered "
                    "parameters: %s instead of %s" % (now.tolist(), ref.tolist()))
if given["w"] is not fast_w or given["b"] is not fast_b:
    problems.append("the dict passed to functional_call was overwritten: %s"
                    % {k: (None if v is None else "tensor") for k, v in given.items()})

# ---------------------------------------------------------------------------
# Part B: the same damage from a *forward-only* call (no autograd at all):
# xitorch.linalg.solve with a LinearOperator that reads the weight of an
# nn.Module, called inside functional_call.  LinearOperator.uselinopparams
# always re-installs the operator's tensors, also in the forward pass.
import xitorch
from xitorch.linalg import solve


class WeightOp(xitorch.LinearOperator):
    def __init__(self, lin):
        super().__init__(shape=(6, 6), dtype=dt)
        self.lin = lin

    def _mv(self, v):
        return v @ self.lin.weight.T + 3 * v

    def _getparamnames(self, prefix=""):
        return [prefix + "lin.weight"]


class ImplicitLayer(torch.nn.Module):
    def __init__(self):
        super().__init__()
        self.lin = torch.nn.Linear(6, 6, bias=False).to(dt)

    def forward(self, rhs):
        return solve(WeightOp(self.lin), rhs, method="bicgstab")


layer = ImplicitLayer()
lw0 = layer.lin.weight
fast = (lw0.detach() * 0.5).requires_grad_()
given2 = {"lin.weight": fast}
with torch.no_grad():
    functional_call(layer, given2, (torch.ones(6, 1, dtype=dt),))
if layer.lin.weight is not lw0:
    problems.append("[forward-only solve] layer.lin.weight is no longer the registered Parameter "
                    "('weight' in layer.lin.__dict__: %s)" % ("weight" in layer.lin.__dict__))
if given2["lin.weight"] is not fast:
    problems.append("[forward-only solve] the dict passed to functional_call was overwritten: %s" % given2)

print("registered before:", before)
print("registered after :", after)
if problems:
    print("FAIL")
    for p in problems:
        print(" -", p)
    sys.exit(1)
print("PASS")
sys.exit(0)
