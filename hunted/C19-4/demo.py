"""
C19 violation 4: a PureFunction wrapper that outlives a call (the user obtained it with
the public xitorch.get_pure_function / xitorch.make_sibling) keeps a temporary tensor of
a *backward pass* alive after all outputs and gradients are gone.

History: `inner` is a user-held pure function of model.inner.  `model.outer` solves an
inner root-finding problem with it (bilevel problem).  rootfinder(model.outer, ...) is
differentiated.  In _RootFinder.backward the wrapper of model.outer installs clones of
the object's tensors (p.clone().requires_grad_()) and evaluates model.outer, which calls
rootfinder(inner, ...).  inner.useobjparams(...) remembers "what the object held when
the substitution was made" - the clones of the *other* wrapper - and on restore sets
    self._cur_objparams = self._uniq.get_unique_objs(old_allobjparams)      (pure_function.py L62-66)
to those clones.  The outer wrapper then puts the originals back on the object, but
`inner` is never told: inner.objparams() now returns a clone created during the
backward pass, and keeps it alive for as long as `inner` lives.
"""
import gc
import sys
import warnings
import torch
import xitorch
from xitorch import EditableModule
from xitorch.optimize import rootfinder

warnings.simplefilter("ignore")
dt = torch.float64
n = 8

def live_tensor_ids():
    return set(id(o) for o in gc.get_objects() if isinstance(o, torch.Tensor))

class Model(EditableModule):
    def __init__(self, a):
        self.a = a
    def inner(self, z, y):
        return z ** 3 * self.a + z - y
    def outer(self, y):
        z = rootfinder(inner, torch.ones_like(y), params=(y,))   # lower-level problem
        return z + y - 1.5 * self.a
    def getparamnames(self, methodname, prefix=""):
        return [prefix + "a"]

a = torch.linspace(0.7, 2.0, n, dtype=dt).requires_grad_()
model = Model(a)
inner = xitorch.get_pure_function(model.inner)      # long-lived pure function
y0 = torch.ones(n, dtype=dt)

def run(mode):
    y = rootfinder(model.outer, y0)
    if mode == "forward only":
        return
    g, = torch.autograd.grad((y ** 2).sum(), a, create_graph=(mode == "backward, create_graph"))
    # y, g released on return

bad = []
for mode in ["forward only", "backward", "backward, create_graph"]:
    gc.collect()
    gc.disable()
    base = live_tensor_ids()
    counts = []
    for _ in range(3):
        run(mode)
        counts.append(len(live_tensor_ids() - base))
    gc.collect()
    after_gc = live_tensor_ids() - base
    gc.enable()
    objp = inner.objparams()
    stale = [id(p) in after_gc for p in objp]
    print("%-24s live tensors left after each call: %s, after gc.collect(): %d ; "
          "inner.objparams()[0] is a: %s ; model.a is a: %s ; grad_fn of inner.objparams()[0]: %s"
          % (mode, counts, len(after_gc), objp[0] is a, model.a is a, objp[0].grad_fn))
    if len(after_gc) > 0:
        bad.append((mode, counts, len(after_gc), stale))
    # put the wrapper back into a clean state for the next mode
    inner = xitorch.get_pure_function(model.inner)

if bad:
    print("FAIL: outputs and gradients are released, yet a tensor allocated during the backward "
          "pass (a clone of the parameter) stays reachable from the user-held pure function: %s" % bad)
    sys.exit(1)
print("PASS")
sys.exit(0)
