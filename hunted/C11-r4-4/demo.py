"""
C11 / finding 4: an expression of two dense-wrapped operators (A + B, A - B,
2 * A, A.matmul(B)) is evaluated eagerly when it is *built* and stores a
snapshot of the result, whereas the same expression with any other leaf kind
(and A.H, which is a view) stays a live expression of its operands.  After the
caller updates a wrapped matrix in place (an optimizer step - operators are
built once, outside the training loop), the dense-dense expressions describe
the old matrices: the expression's matrix is no longer the same expression of
its operands' matrices, and what happens depends on the leaf kinds only.
"""
import sys
import torch
import xitorch
from xitorch import LinearOperator

torch.manual_seed(0)
dt = torch.float64
n = 3

class MvOnly(LinearOperator):
    def __init__(self, M):
        super().__init__(shape=M.shape, dtype=M.dtype)
        self.M = M

    def _mv(self, x):
        return torch.matmul(self.M, x.unsqueeze(-1)).squeeze(-1)

    def _getparamnames(self, prefix=""):
        return [prefix + "M"]

W = torch.nn.Parameter(torch.randn(n, n, dtype=dt))      # trainable, not symmetric
Bmat = torch.randn(n, n, dtype=dt)
A = LinearOperator.m(W)
B_dense = LinearOperator.m(Bmat)
B_user = MvOnly(Bmat)                                     # same matrix, other leaf kind

# expressions built once, before the training loop
exprs = {
    "A + B      (dense, dense)": (A + B_dense, lambda a, b: a + b),
    "A - B      (dense, dense)": (A - B_dense, lambda a, b: a - b),
    "2 * A      (dense)       ": (2 * A, lambda a, b: 2 * a),
    "A @ B      (dense, dense)": (A.matmul(B_dense), lambda a, b: a @ b),
    "A.H        (dense)       ": (A.H, lambda a, b: a.transpose(-2, -1).conj()),
    "A + B      (dense, user) ": (A + B_user, lambda a, b: a + b),
    "A @ B      (dense, user) ": (A.matmul(B_user), lambda a, b: a @ b),
}

def check(when):
    bad = []
    with torch.no_grad():
        a, b = A.fullmatrix(), B_dense.fullmatrix()
        x = torch.randn(n, dtype=dt)
        for name, (op, ref) in exprs.items():
            try:
                full = op.fullmatrix()
                mv = op.mv(x)
            except RuntimeError as e:      # refusing a stale expression loudly is fine
                print("%s raised (acceptable): %s" % (name, str(e)[:60]))
                continue
            err = max((full - ref(a, b)).abs().max().item(), (mv - ref(a, b) @ x).abs().max().item())
            if err > 1e-9:
                bad.append("%s %s: matrix differs from the same expression of the operands' matrices by %.3e"
                           % (when, name, err))
    return bad

problems = check("before the step:")
assert not problems, problems

# one ordinary training step on the wrapped parameter, through the expression A + B
opt = torch.optim.SGD([W], lr=0.5)
x = torch.randn(n, dtype=dt)
K = exprs["A + B      (dense, dense)"][0]
loss = (K.mv(x) ** 2).sum()
loss.backward()
opt.step()
opt.zero_grad()
assert torch.equal(A.fullmatrix(), W)      # the operand itself follows the parameter

problems = check("after one SGD step:")
if problems:
    for p in problems:
        print("VIOLATION:", p)
    # the stale expression still back-propagates to W without any complaint
    loss2 = (K.mv(x) ** 2).sum()
    loss2.backward()
    print("second backward through the stale A + B succeeded; W.grad is not None:", W.grad is not None)
    sys.exit(1)
print("ok")
sys.exit(0)
