"""
C16 demo 2: in debug mode mcquad raises for a perfectly legal integrand (method of an
EditableModule with a correct getparamnames) whenever autograd recording is switched off
at the time of the call:
  (a) mcquad(...) under torch.no_grad()   (plain evaluation of the expectation)
  (b) mcquad(...) called inside the integrand of another mcquad (the integrand is
      evaluated inside an autograd.Function.forward, where grad mode is off) - this
      fails even though the caller has grad mode ON.
Without debug mode both calls return the documented sample mean.
Deterministic: method="mhcustom" with a fixed custom step.
"""
import sys
import io
import contextlib
import torch
import xitorch as xt
from xitorch.integrate import mcquad

torch.set_default_dtype(torch.float64)

def step(x, *_):
    return 0.6 * x + 0.5 * torch.cos(3 * x + 1.0)

def chain(x0, nsamples, nburnout):
    x = x0
    for _ in range(nburnout):
        x = step(x)
    xs = [x]
    for _ in range(nsamples - 1):
        x = step(x)
        xs.append(x)
    return xs

X0 = torch.tensor([0.3, -0.2])
OPT = dict(method="mhcustom", nsamples=5, nburnout=2, custom_step=step)
XS = chain(X0, 5, 2)

class Model(xt.EditableModule):
    def __init__(self, a, s):
        self.a = a
        self.s = s

    def f(self, x):
        return torch.sin(self.a * x)

    def logp(self, x):
        return -((x * self.a) ** 2).sum() / self.s

    def outer_f(self, x):
        # an integrand that itself contains an expectation over the same object
        return mcquad(self.f, self.logp, x, **OPT) * self.s

    def getparamnames(self, methodname, prefix=""):
        return [prefix + "a", prefix + "s"] if methodname in ("logp", "outer_f") else [prefix + "a"]

def lp_plain(x):
    return -(x * x).sum()

a = torch.tensor([1.2, 0.7], requires_grad=True)
s = torch.tensor(0.9, requires_grad=True)
m = Model(a, s)

def quiet(fn):
    # the debug check prints '"f" method check done'; keep the output readable
    buf = io.StringIO()
    with contextlib.redirect_stdout(buf):
        return fn()

failures = []

# ---------------------------------------------------------------- (a) no_grad
with torch.no_grad():
    expected = sum(m.f(x) for x in XS) / len(XS)
    plain = mcquad(m.f, m.logp, X0, **OPT)
print("(a) explicit sample mean        :", expected)
print("(a) mcquad, no_grad, debug off  :", plain)
try:
    with xt.enable_debug():
        with torch.no_grad():
            dbg = quiet(lambda: mcquad(m.f, m.logp, X0, **OPT))
    print("(a) mcquad, no_grad, debug on   :", dbg)
    if not torch.allclose(dbg, expected):
        failures.append("(a) debug-mode value differs from the sample mean")
except Exception as e:
    print("(a) mcquad, no_grad, debug on   : raised %s: %s" % (type(e).__name__, e))
    failures.append("(a) debug mode + torch.no_grad(): mcquad raised %s instead of returning the sample mean"
                    % type(e).__name__)
print("    object still holds its tensors:", m.a is a, m.s is s)

# ---------------------------------------------------------------- (b) nested, grad mode ON
plain = mcquad(m.outer_f, lp_plain, X0, **OPT)
print("(b) nested mcquad, debug off    :", plain.detach())
try:
    with xt.enable_debug():
        dbg = quiet(lambda: mcquad(m.outer_f, lp_plain, X0, **OPT))
    print("(b) nested mcquad, debug on     :", dbg.detach())
    if not torch.allclose(dbg, plain):
        failures.append("(b) debug-mode value differs")
    g0 = torch.autograd.grad(plain.sum(), [a, s])
    g1 = torch.autograd.grad(dbg.sum(), [a, s])
    if not all(torch.allclose(u, v) for u, v in zip(g0, g1)):
        failures.append("(b) debug-mode gradient differs")
except Exception as e:
    print("(b) nested mcquad, debug on     : raised %s: %s" % (type(e).__name__, e))
    failures.append("(b) debug mode + mcquad inside the integrand of another mcquad: raised %s"
                    % type(e).__name__)
print("    object still holds its tensors:", m.a is a, m.s is s)

if failures:
    print("FAIL:")
    for f in failures:
        print("   ", f)
    sys.exit(1)
print("PASS")
sys.exit(0)
