# C20_1: construct_from_tensor after get_param_tensor_list (but before any
# get_param_tensor) trips an internal "Please report to Github" assertion.
import sys
import torch
from xitorch import Packer

torch.manual_seed(0)

def check(unique):
    a = torch.randn(2, 3)
    b = torch.randn(4)
    obj = {"a": a, "b": b, "c": a, "n": 3}
    packer = Packer(obj)

    # the user lists the tensors and concatenates them himself
    params = packer.get_param_tensor_list(unique=unique)
    flat = torch.cat([p.reshape(-1) for p in params]) * 2.0

    try:
        new = packer.construct_from_tensor(flat, unique=unique)
    except RuntimeError as e:
        # a clean refusal ("Please execute self.get_param_tensor first") is what
        # the code intends for a missing get_* call: accepted
        print("unique=%s: cleanly refused: %s" % (unique, e))
        return True
    except BaseException as e:
        print("unique=%s: VIOLATION: get_param_tensor_list -> construct_from_tensor raised %s: %s"
              % (unique, type(e).__name__, e))
        return False

    # it went through: then it must be the right structure
    ok = (list(new.keys()) == list(obj.keys()) and new["n"] == 3
          and torch.equal(new["a"], a * 2) and torch.equal(new["b"], b * 2)
          and torch.equal(new["c"], a * 2) and new["a"].shape == a.shape)
    if unique:
        ok = ok and new["a"] is new["c"]
    if not ok:
        print("unique=%s: VIOLATION: wrong structure rebuilt: %r" % (unique, new))
    return ok

def control(unique):
    # same data, the order get_param_tensor -> construct_from_tensor works
    a = torch.randn(2, 3)
    b = torch.randn(4)
    packer = Packer({"a": a, "b": b, "c": a, "n": 3})
    flat = packer.get_param_tensor(unique=unique)
    new = packer.construct_from_tensor(flat * 2.0, unique=unique)
    assert torch.equal(new["a"], a * 2)

res = []
for unique in (True, False):
    control(unique)
    res.append(check(unique))
if all(res):
    print("ok")
    sys.exit(0)
sys.exit(1)
