"""
C17 violation 1: when the differentiated argument is the same tensor object as
another argument (or as a parameter of the nn.Module the function is a method
of), jac/hess return the TOTAL derivative w.r.t. that tensor instead of the
Jacobian w.r.t. the selected argument index.
"""
import sys
import torch
from xitorch.grad import jac, hess

torch.manual_seed(0)
dt = torch.double
fails = []

def dense_jac(f, params, idx):
    # reference: Jacobian w.r.t. argument `idx` only
    def g(p):
        ps = list(params)
        ps[idx] = p
        return f(*ps)
    J = torch.autograd.functional.jacobian(g, params[idx])
    return J.reshape(-1, params[idx].numel())

# ---- (a) plain function, one tensor passed in two argument slots ----
def f(a, b):
    return a * b                      # d f / d a = diag(b)

x = torch.randn(3, dtype=dt, requires_grad=True)
J0 = jac(f, (x, x), idxs=0)
Jd = dense_jac(f, (x, x), 0)          # diag(x)
print("(a) jac(f,(x,x),idxs=0).fullmatrix():\n", J0.fullmatrix().detach())
print("    true d f/d arg0 = diag(x):\n", Jd)
if not torch.allclose(J0.fullmatrix(), Jd):
    fails.append("(a) jac w.r.t. argument 0 of f(a,b)=a*b at (x,x) is %s x the true one"
                 % (J0.fullmatrix().detach().diagonal() / Jd.diagonal()).tolist())
v = torch.randn(3, dtype=dt)
if not torch.allclose(J0.mv(v), Jd @ v):
    fails.append("(a) mv differs from dense product")
if not torch.allclose(J0.rmv(v), Jd.T @ v):
    fails.append("(a) rmv differs from dense product")

# ---- (b) hess with the same tensor in two slots ----
def e(a, b):
    return (a * a * b).sum()          # d2 e / d a2 = diag(2 b)
H0 = hess(e, (x, x), idxs=0)
Hd = torch.autograd.functional.hessian(lambda a: e(a, x), x)
print("(b) hess diag:", H0.fullmatrix().detach().diagonal().tolist(), " true:", Hd.diagonal().tolist())
if not torch.allclose(H0.fullmatrix(), Hd):
    fails.append("(b) hess w.r.t. argument 0 at (x,x) is not the Hessian block of argument 0")

# ---- (c) method of an nn.Module, argument is the module's own Parameter ----
class Reg(torch.nn.Module):
    def __init__(self):
        super().__init__()
        self.w = torch.nn.Parameter(torch.randn(3, dtype=dt))
    def forward(self, w_new):
        return w_new * self.w + w_new          # d/d w_new = diag(w + 1)
m = Reg()
Jm = jac(m.forward, (m.w,), idxs=0)
Jmd = dense_jac(m.forward, (m.w,), 0)   # diag(w + 1)
print("(c) module: diag of jac:", Jm.fullmatrix().detach().diagonal().tolist(),
      " true:", Jmd.diagonal().tolist())
if not torch.allclose(Jm.fullmatrix(), Jmd):
    fails.append("(c) jac of m.forward w.r.t. its argument, evaluated at the module's own Parameter, is wrong")

# ---- (d) an argument that is computed from another argument ----
y = x * 2.0                              # non-leaf that depends on x
J0 = jac(f, (x, y), idxs=0)
Jd = dense_jac(f, (x, y), 0)             # diag(y)
if not torch.allclose(J0.fullmatrix(), Jd):
    fails.append("(d) jac w.r.t. argument 0 also contains the path through argument 1 = 2*x")

if fails:
    print("FAIL")
    for s in fails:
        print("  -", s)
    sys.exit(1)
print("PASS")
sys.exit(0)
