"""
C10 violation: an EditableModule lists the weight of a sub-module in getparamnames
("lin.weight"); the sub-module is parametrized with torch.nn.utils.parametrize
(weight_norm / orthogonal). A forward-only functional call that
completes overwrites the VALUES of the caller's registered Parameters in place.

exit 1: violation present, exit 0: library behaves
"""
import sys
import warnings
import torch
import xitorch
from xitorch.optimize import rootfinder
import torch.nn.utils.parametrize as parametrize
from torch.nn.utils.parametrizations import weight_norm, orthogonal

warnings.simplefilter("ignore")
dt = torch.double
bad = []

class Model(xitorch.EditableModule):
    def __init__(self, lin):
        self.lin = lin

    def f(self, y):
        return torch.tanh(self.lin(y) * 0.3 + 0.1) + y / 2

    def getparamnames(self, methodname, prefix=""):
        # the tensors that affect the output of f
        return [prefix + "lin.weight", prefix + "lin.bias"]

def make(kind):
    torch.manual_seed(0)
    lin = torch.nn.Linear(2, 2).to(dt)
    if kind == "weight_norm":
        lin = weight_norm(lin)
    elif kind == "orthogonal":
        lin = orthogonal(lin)
    if kind != "plain":
        # one ordinary training step, so that the parameters are not at their initial values
        opt = torch.optim.SGD(lin.parameters(), lr=0.05)
        (lin(torch.ones(1, 2, dtype=dt)) ** 2).sum().backward()
        opt.step()
        opt.zero_grad(set_to_none=True)
    return lin

def snapshot(lin):
    return {n: (id(p), p.detach().clone()) for n, p in lin.named_parameters()}

def changed(s0, lin):
    out = []
    s1 = snapshot(lin)
    if list(s0) != list(s1):
        out.append("names %s -> %s" % (list(s0), list(s1)))
    for n in s0:
        if n in s1:
            if s0[n][0] != s1[n][0]:
                out.append("%s: identity" % n)
            if not torch.equal(s0[n][1], s1[n][1]):
                out.append("%s: value (max abs change %.3g)" % (n, (s0[n][1] - s1[n][1]).abs().max().item()))
    return out

y0 = torch.zeros(1, 2, dtype=dt)
for kind in ["plain", "weight_norm", "orthogonal"]:
    # control: the same history without xitorch
    lin = make(kind)
    m = Model(lin)
    s0 = snapshot(lin)
    m.f(y0)
    c = changed(s0, lin)
    print("%-12s control (plain call of f)     : %s" % (kind, c or "unchanged"))

    # control: torch.nn.Module route of xitorch (names taken from the module itself)
    lin = make(kind)
    s0 = snapshot(lin)
    class Net(torch.nn.Module):
        def __init__(self, lin):
            super().__init__()
            self.lin = lin
        def forward(self, y):
            return torch.tanh(self.lin(y) * 0.3 + 0.1) + y / 2
    rootfinder(Net(lin).forward, y0)
    c = changed(s0, lin)
    print("%-12s control (nn.Module method)     : %s" % (kind, c or "unchanged"))

    lin = make(kind)
    m = Model(lin)
    s0 = snapshot(lin)
    y = rootfinder(m.f, y0)          # forward only, nothing raises
    c = changed(s0, lin)
    print("%-12s rootfinder(EditableModule.f)   : %s" % (kind, c or "unchanged"))
    if c:
        bad.append("%s: %s" % (kind, "; ".join(c)))

print()
if bad:
    print("VIOLATION of C10 (Parameter values overwritten by a completed forward call):")
    for b in bad:
        print(" -", b)
    sys.exit(1)
print("OK: parameters unchanged")
sys.exit(0)
