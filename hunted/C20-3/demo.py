"""C20 violation 3: tensors held in a tuple. A tensor that sits in a list/dict
slot AND in a tuple is replaced in the former and left stale in the latter
(aliasing lost, rebuilt structure mixes new and old tensors); a non-leaf tensor
inside a tuple makes Packer(...) itself crash."""
import sys
import torch
from xitorch import Packer

problems = []

a = torch.tensor([1., 2.])
obj = {"a": a, "pair": (a, [0, 1])}          # `a` under two positions
rejected = False
try:
    packer = Packer(obj)
    lst = packer.get_param_tensor_list()
    print("listed:", lst)
    new = [torch.tensor([9., 9.]) for _ in lst]
    o = packer.construct_from_tensor_list(new)
    print("rebuilt:", o)
except (TypeError, ValueError, RuntimeError) as e:
    # a library that loudly refuses tensors inside tuples does not misbehave silently
    print("rejected loudly: %s: %s" % (type(e).__name__, e))
    rejected = True
if rejected:
    print("PASS (tensors inside tuples are refused explicitly)")
    sys.exit(0)
if o["pair"][0] is not o["a"]:
    problems.append("obj['a'] and obj['pair'][0] were the same tensor; in the rebuilt structure "
                    "'a' is the new tensor but 'pair'[0] is %s (is the ORIGINAL tensor: %s)"
                    % (o["pair"][0], o["pair"][0] is a))

# same for a namedtuple, a very common tensor container
import collections
State = collections.namedtuple("State", "pos vel")
pos = torch.tensor([0., 1.]); vel = torch.tensor([2., 3.])
obj2 = {"state": State(pos, vel), "pos": pos}
p2 = Packer(obj2)
l2 = p2.get_param_tensor_list()
o2 = p2.construct_from_tensor_list([torch.tensor([7., 7.]) for _ in l2])
print("rebuilt namedtuple case:", o2)
if o2["state"].pos is not o2["pos"]:
    problems.append("namedtuple: rebuilt 'state'.pos is not aliased with rebuilt 'pos' any more")

# non-leaf tensor inside a tuple: constructor crashes
x = torch.tensor([1., 2.], requires_grad=True)
try:
    p3 = Packer({"w": x, "aux": (x * 2, "label")})
    p3.get_param_tensor_list()
except Exception as e:
    print("Packer({'w': x, 'aux': (x*2, 'label')}) raised %s: %s" % (type(e).__name__, str(e)[:90]))
    problems.append("Packer() crashes on a structure whose tuple holds a non-leaf tensor: %s" % type(e).__name__)

if problems:
    print("FAIL:")
    for p in problems:
        print("  -", p)
    sys.exit(1)
print("PASS")
sys.exit(0)
