"""
C17 violation 5: the operator caches the autograd graph of its constructor
evaluation and re-uses it for every product.  One ordinary backward through
ONE product (no retain_graph, the PyTorch default) frees that cached graph, and
afterwards the operator cannot even compute product VALUES any more:
rmv / rmm / .H.mv / .H.fullmatrix raise "Trying to backward through the graph
a second time", also under torch.no_grad().  (A dense Jacobian tensor would
still give its products after such a backward.)
"""
import sys
import torch
from xitorch.grad import jac, hess

torch.manual_seed(0)
dt = torch.double
fails = []

def f(x, w):
    return torch.exp(torch.sin(w @ x))

x = torch.randn(3, dtype=dt, requires_grad=True)
w = torch.randn(4, 3, dtype=dt, requires_grad=True)
Jd = torch.autograd.functional.jacobian(lambda x_: f(x_, w), x).detach()   # (4,3)
a = torch.randn(3, dtype=dt)
b = torch.randn(4, dtype=dt)

J = jac(f, (x, w), idxs=0)
# first use: a loss on J a, differentiated w.r.t. the point and the parameter - the documented use
loss1 = J.mv(a).pow(2).sum()
loss1.backward()
print("after loss1.backward(): x.grad finite:", bool(torch.isfinite(x.grad).all()))

# second use of the same operator: only VALUES are asked for
for name, call, ref in [
    ("mv", lambda: J.mv(a), Jd @ a),
    ("rmv", lambda: J.rmv(b), Jd.T @ b),
    ("rmm", lambda: J.rmm(b.unsqueeze(-1)), Jd.T @ b.unsqueeze(-1)),
    ("H.mv", lambda: J.H.mv(b), Jd.T @ b),
    ("fullmatrix", lambda: J.fullmatrix(), Jd),
    ("H.fullmatrix", lambda: J.H.fullmatrix(), Jd.T),
]:
    try:
        with torch.no_grad():
            val = call()
        ok = torch.allclose(val, ref)
        print("  %-13s value after a backward: %s" % (name, "ok" if ok else "WRONG"))
        if not ok:
            fails.append("%s value wrong after a backward through another product" % name)
    except RuntimeError as ex:
        print("  %-13s raised: %s" % (name, str(ex)[:70]))
        fails.append("%s cannot be evaluated (even under no_grad) after loss.backward() on another product: %s..."
                     % (name, str(ex)[:60]))

# same for hess
def e(x, w):
    return f(x, w).sum()
H = hess(e, (x, w), idxs=0)
Hd = torch.autograd.functional.hessian(lambda x_: e(x_, w), x).detach()
H.mv(a).pow(2).sum().backward()
for name, call, ref in [("hess mv", lambda: H.mv(a), Hd @ a), ("hess rmv", lambda: H.rmv(a), Hd @ a),
                        ("hess fullmatrix", lambda: H.fullmatrix(), Hd)]:
    try:
        with torch.no_grad():
            val = call()
        ok = torch.allclose(val, ref)
        print("  %-15s value after a backward: %s" % (name, "ok" if ok else "WRONG"))
        if not ok:
            fails.append("%s value wrong after a backward" % name)
    except RuntimeError as ex:
        print("  %-15s raised: %s" % (name, str(ex)[:70]))
        fails.append("%s cannot be evaluated (even under no_grad) after a backward: %s..." % (name, str(ex)[:60]))

# a fresh operator, used twice in the other order: rmv-loss first, then anything
J = jac(f, (x, w), idxs=0)
J.rmv(b).pow(2).sum().backward()
for name, call, ref in [("mv", lambda: J.mv(a), Jd @ a), ("rmv", lambda: J.rmv(b), Jd.T @ b)]:
    try:
        with torch.no_grad():
            val = call()
        if not torch.allclose(val, ref):
            fails.append("%s value wrong after backward through rmv" % name)
        print("  after rmv-loss backward: %-4s value ok" % name)
    except RuntimeError as ex:
        print("  after rmv-loss backward: %-4s raised: %s" % (name, str(ex)[:60]))
        fails.append("%s cannot be evaluated after backward through an rmv product" % name)

if fails:
    print("FAIL")
    for s in fails:
        print("  -", s)
    sys.exit(1)
print("PASS")
sys.exit(0)
