"""
C11 / 2: LinearOperator.check() - the library's own (debug-mode) consistency check -
rejects every correct operator that has a batch dimension of size != 1, claiming
"Batched test fails (expanding batches changes the results)".  With debug mode on,
xitorch.linalg.solve / symeig call A.check() as a pre-flight, so they refuse batched
operators that they handle correctly with debug mode off.
"""
import sys
import io
import contextlib
import warnings
import torch
import xitorch
from xitorch import LinearOperator
from xitorch.linalg import solve
from xitorch.debug.modes import enable_debug

warnings.simplefilter("ignore")
torch.manual_seed(0)
dt = torch.float64


class Diag(LinearOperator):
    # user-defined operator from the matrix-vector product alone, batch shape (2,)
    def __init__(self, d):
        super().__init__(shape=(*d.shape, d.shape[-1]), dtype=d.dtype, device=d.device)
        self.d = d

    def _mv(self, x):
        return self.d * x

    def _getparamnames(self, prefix=""):
        return [prefix + "d"]


def products_consistent(A, mat):
    # mv/mm/rmv/rmm/fullmatrix against the dense batched matrix, with broadcasting operands
    p, q = mat.shape[-2:]
    B = tuple(mat.shape[:-2])
    ok = torch.allclose(A.fullmatrix(), mat)
    mh = mat.transpose(-2, -1).conj()
    for xb in [(), B, (1,) * len(B), (4,) + B]:
        x = torch.randn(*xb, q, dtype=mat.dtype)
        ok = ok and torch.allclose(A.mv(x), (mat @ x.unsqueeze(-1)).squeeze(-1))
        X = torch.randn(*xb, q, 2, dtype=mat.dtype)
        ok = ok and torch.allclose(A.mm(X), mat @ X)
        x = torch.randn(*xb, p, dtype=mat.dtype)
        ok = ok and torch.allclose(A.rmv(x), (mh @ x.unsqueeze(-1)).squeeze(-1))
        X = torch.randn(*xb, p, 2, dtype=mat.dtype)
        ok = ok and torch.allclose(A.rmm(X), mh @ X)
    return ok


def run_check(A):
    try:
        with contextlib.redirect_stdout(io.StringIO()):
            A.check(warn=False)
        return None
    except BaseException as e:
        return "%s: %s" % (type(e).__name__, str(e).split("\n")[0][:90])


bad = False
m = torch.randn(2, 3, 3, dtype=dt)
d = torch.randn(2, 3, dtype=dt)
cases = [
    ("dense-wrapped (3,3)      ", LinearOperator.m(torch.randn(3, 3, dtype=dt)), None),
    ("dense-wrapped (1,3,3)    ", LinearOperator.m(torch.randn(1, 3, 3, dtype=dt)), None),
    ("dense-wrapped (2,3,3)    ", LinearOperator.m(m), m),
    ("dense-wrapped (2,3,4)    ", LinearOperator.m(torch.randn(2, 3, 4, dtype=dt)), None),
    ("user mv-only diag (2,3,3)", Diag(d), torch.diag_embed(d)),
]
for name, A, mat in cases:
    if mat is None:
        mat = A.fullmatrix()
    cons = products_consistent(A, mat)
    err = run_check(A)
    print("%s products consistent: %s | check(): %s" % (name, cons, "passes" if err is None else err))
    if cons and err is not None:
        bad = True

# consequence: solve() with debug mode on
A = LinearOperator.m(m + 3 * torch.eye(3, dtype=dt))
Bm = torch.randn(2, 3, 1, dtype=dt)
x0 = solve(A, Bm)
print("solve, debug off: residual %.1e" % (A.mm(x0) - Bm).abs().max().item())
try:
    with enable_debug(), contextlib.redirect_stdout(io.StringIO()):
        x1 = solve(A, Bm)
    print("solve, debug on : residual %.1e" % (A.mm(x1) - Bm).abs().max().item())
except BaseException as e:
    print("solve, debug on : raises %s: %s" % (type(e).__name__, str(e).split("\n")[0][:80]))
    bad = True

if bad:
    print("FAIL: check() rejects operators whose products are consistent and broadcast "
          "correctly over batch dimensions")
    sys.exit(1)
print("PASS")
sys.exit(0)
