"""C16 violation 3: first-order backward (create_graph=False) over-counts the gradient when
the tensor parameters of f (or of log p) are not independent leaves: the same tensor given
under two names, or one parameter computed from another one."""
import sys
import torch
import xitorch as xt
from xitorch.integrate import mcquad
torch.set_default_dtype(torch.float64)

def step(x, *pparams):
    return torch.sin(3.0 * x + 1.0) * 1.5 + 0.1
NS, NB = 6, 2
X0 = torch.tensor([0.2, -0.3])
OPT = dict(method="mhcustom", custom_step=step, nsamples=NS, nburnout=NB)

def samples():
    x = X0
    for _ in range(NB): x = step(x)
    xs = [x]
    for _ in range(NS - 1):
        x = step(x); xs.append(x)
    return xs

def explicit(f, logp, fparams, pparams):
    xs = samples()
    lps = torch.stack([logp(x, *pparams).reshape(()) for x in xs])
    w = torch.exp(lps - lps.detach()); w = w / w.sum()
    return sum(wi * f(x, *fparams) for wi, x in zip(w, xs))

fail = []
def case(name, f, logp, mk_fparams, mk_pparams, leaves):
    y = mcquad(f, logp, X0, mk_fparams(), mk_pparams(), **OPT)
    yr = explicit(f, logp, mk_fparams(), mk_pparams())
    assert torch.allclose(y, yr)
    want = torch.autograd.grad(yr.sum(), leaves)
    g1 = torch.autograd.grad(y.sum(), leaves, retain_graph=True)
    g2 = torch.autograd.grad(y.sum(), leaves, create_graph=True)
    for tag, g in (("create_graph=False", g1), ("create_graph=True ", g2)):
        ok = all(torch.allclose(u, v) for u, v in zip(g, want))
        print("%-46s %s got %s want %s %s" % (name, tag, [round(u.item(), 4) for u in g],
              [round(v.item(), 4) for v in want], "ok" if ok else "WRONG"))
        if not ok: fail.append(name + " " + tag)

a = torch.tensor(0.7, requires_grad=True)
w = torch.tensor(1.1, requires_grad=True)
logp1 = lambda x, w: -(x * x).sum() / (2 * w * w)

# 1. independent leaves: fine
case("independent leaves", lambda x, a: torch.cos(a * x), logp1, lambda: [a], lambda: [w], (a, w))
# 2. the same tensor twice in fparams
case("fparams=[a, a]", lambda x, p, q: torch.cos(p * x) * q, logp1, lambda: [a, a], lambda: [w], (a, w))
# 3. a parameter and a quantity computed from it
case("fparams=[a, 2*a]", lambda x, p, q: torch.cos(p * x) * q, logp1, lambda: [a, 2 * a], lambda: [w], (a, w))
# 4. same in pparams (mean w, variance w*w)
case("pparams=[w, w*w]", lambda x, a: torch.cos(a * x),
     lambda x, mu, var: -((x - mu) ** 2).sum() / (2 * var), lambda: [a], lambda: [w, w * w], (a, w))
# 5. a tensor held by the object and also passed explicitly
class Mod(xt.EditableModule):
    def __init__(self, a): self.a = a
    def f(self, x, scale): return torch.cos(self.a * x) * scale
    def getparamnames(self, methodname, prefix=""): return [prefix + "a"]
m = Mod(a)
case("object holds a, fparams=[m.a]", m.f, logp1, lambda: [m.a], lambda: [w], (a, w))

if fail:
    print("FAIL: first-order gradient is not the mean of df / the score-function estimator:")
    for n in fail: print("    ", n)
    sys.exit(1)
print("PASS")
