"""
C17 / finding 3: a Jacobian / Hessian block that is identically zero cannot be built or applied.

Statement: "The operators returned by jac and hess have shape (outputs x inputs) and their mv, rmv,
mm, rmm, fullmatrix and .H products equal the corresponding products with the dense Jacobian (or
symmetric Hessian) ... for any selection of argument indices, any function kind ...".
The dense block is a zero matrix (what torch.autograd.functional.jacobian / hessian return); the
library raises instead:
  a) jac(f, (x, y)) (idxs=None = "all arguments that require grad") when f does not use y
  b) hess of a function that is (bi)linear in the selected argument, e.g. e(x, y) = x . (B y)
  c) jac of a piecewise constant function: rmv gives zeros but mv / mm / fullmatrix raise
"""
import sys
import torch
from xitorch.grad import jac, hess

torch.manual_seed(0)
dt = torch.double
B = torch.randn(3, 2, dtype=dt)
x = torch.randn(3, dtype=dt).requires_grad_()
y = torch.randn(2, dtype=dt).requires_grad_()

problems = []

def check_ops(label, make_ops, refs):
    try:
        ops = make_ops()
    except Exception as exc:
        problems.append("%s: construction raised %s: %s" % (label, type(exc).__name__, str(exc).split(".")[0]))
        return
    for i, (op, ref) in enumerate(zip(ops, refs)):
        for name, fn, r in [("fullmatrix", lambda: op.fullmatrix(), ref),
                            ("mv", lambda: op.mv(torch.ones(ref.shape[1], dtype=dt)), ref @ torch.ones(ref.shape[1], dtype=dt)),
                            ("rmv", lambda: op.rmv(torch.ones(ref.shape[0], dtype=dt)), ref.T @ torch.ones(ref.shape[0], dtype=dt)),
                            ("H.fullmatrix", lambda: op.H.fullmatrix(), ref.T)]:
            try:
                val = fn()
            except Exception as exc:
                problems.append("%s [%d] %s: raised %s: %s" %
                                (label, i, name, type(exc).__name__, str(exc).split(".")[0]))
                continue
            if val.shape != r.shape or not torch.allclose(val, r):
                problems.append("%s [%d] %s: wrong value" % (label, i, name))

# a) a function of (x, y) that does not use y; all Jacobians requested
fa = lambda a, b: torch.tanh(a) * a
ref_a = torch.autograd.functional.jacobian(fa, (x, y))            # ((3,3), (3,2) zeros)
check_ops("a) jac(f, (x, y)), f independent of y", lambda: jac(fa, (x, y)), ref_a)

# b) bilinear scalar function: the diagonal Hessian blocks are zero
eb = lambda a, b: (a * (B @ b)).sum()
ref_b = torch.autograd.functional.hessian(eb, (x, y))
check_ops("b) hess(e, (x, y)), e bilinear", lambda: hess(eb, (x, y)), [ref_b[0][0], ref_b[1][1]])
#    and a function linear in its only argument
el = lambda a: (a * 2.0).sum()
check_ops("b) hess(e, (x,)), e linear", lambda: hess(el, (x,)), [torch.autograd.functional.hessian(el, x)])

# c) piecewise constant function of x (times y): d/dx is zero, d/dy is not
fc = lambda a, b: torch.floor(a) * b[0]
ref_c = torch.autograd.functional.jacobian(fc, (x, y))
check_ops("c) jac(f, (x, y)), f piecewise constant in x", lambda: jac(fc, (x, y)), ref_c)

# control: a function that depends on everything works
n0 = len(problems)
fd = lambda a, b: torch.tanh(a) * b[0] + b[1]
check_ops("control", lambda: jac(fd, (x, y)), torch.autograd.functional.jacobian(fd, (x, y)))
if len(problems) != n0:
    print("(control failed too)")

if problems:
    print("VIOLATION: zero Jacobian/Hessian blocks are not returned as zero operators:")
    for p in problems:
        print("  -", p)
    sys.exit(1)
print("ok: zero blocks are zero operators")
sys.exit(0)
