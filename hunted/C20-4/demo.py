"""C20 violation 4: a non-tensor leaf that is a class (float, np.float64,
torch.nn.ReLU, ...) or an Enum member makes the round trip crash."""
import sys
import enum
import torch
from xitorch import Packer

class Mode(enum.Enum):
    FAST = 1
    SLOW = 2

class Cfg:
    def __init__(self, w):
        self.w = w
        self.activation = torch.nn.Tanh      # a class kept as configuration
        self.n = 3

w = torch.tensor([1., 2.])
cases = {
    "dict with builtin type leaf": {"w": w, "dtype": float},
    "object with nn.Module class attr": Cfg(w),
    "dict with Enum member leaf": {"w": w, "mode": Mode.FAST},
}
problems = []
for name, obj in cases.items():
    try:
        packer = Packer(obj)
        lst = packer.get_param_tensor_list()
        assert len(lst) == 1 and lst[0] is w, "listing is %s" % (lst,)
        new = torch.tensor([5., 6.])
        o = packer.construct_from_tensor_list([new])
        got = o["w"] if isinstance(o, dict) else o.w
        assert got is new, "tensor slot does not hold the supplied tensor"
        print("%-35s ok" % name)
    except BaseException as e:
        print("%-35s %s: %s" % (name, type(e).__name__, str(e)[:70]))
        problems.append("%s -> %s: %s" % (name, type(e).__name__, str(e)[:70]))

if problems:
    print("FAIL: structures with ordinary non-tensor leaves cannot be round-tripped:")
    for p in problems:
        print("  -", p)
    sys.exit(1)
print("PASS")
sys.exit(0)
