"""
C10 / finding 2
Between the forward call of rootfinder and the backward pass the user freezes a
Parameter of the module, i.e. turns it into a constant:
  (A) into a registered buffer  : del net.s; net.register_buffer("s", tensor)
  (B) into a plain attribute    : del net.s; net.s = tensor
The backward pass first re-installs the Parameter saved in the forward pass
under that name.  Module.__setattr__ thereby *registers* the name as a
parameter again (and, in (A), silently removes it from the buffers).  The
restoration only empties the parameter slot and shadows it with the user's
tensor in __dict__.  Afterwards
  (A) the buffer is no longer a buffer: it is missing from state_dict() and
      named_buffers(), and net.float()/net.to() no longer convert it;
  (B) the module has a registered-but-empty parameter slot 's' it did not have:
      `del net.s` does not remove the attribute any more.
"""
import sys
import warnings
import torch
from xitorch.optimize import rootfinder

warnings.simplefilter("ignore")
dt = torch.double


class Net(torch.nn.Module):
    def __init__(self):
        super().__init__()
        torch.manual_seed(0)
        self.s = torch.nn.Parameter(torch.tensor(0.2, dtype=dt))
        self.w = torch.nn.Parameter(torch.randn(3, 3, dtype=dt) * 0.3)
        self.b = torch.nn.Parameter(torch.randn(3, dtype=dt) * 0.3)

    def forward(self, y, a):
        return torch.tanh(y @ self.w + self.b + self.s * a) * 0.3 - y


def state(net):
    return dict(
        slots=list(net._parameters.keys()),
        registered=[(n, id(p)) for n, p in net.named_parameters()],
        buffers=[(n, id(b)) for n, b in net.named_buffers()],
        state_dict=list(net.state_dict().keys()),
        plain=sorted((k, id(v)) for k, v in net.__dict__.items() if isinstance(v, torch.Tensor)),
    )


def history(variant, do_backward):
    net = Net()
    a = torch.tensor(0.7, dtype=dt, requires_grad=True)
    y = rootfinder(net.forward, torch.zeros(3, dtype=dt), params=(a,))
    # the user freezes `s`: from now on it is a constant, not a Parameter
    const = net.s.detach().clone()
    del net.s
    if variant == "A":
        net.register_buffer("s", const)
    else:
        net.s = const
    st0 = state(net)
    if do_backward:
        y.sum().backward()
    st1 = state(net)
    assert net.s is const
    # what the user does afterwards
    extra = {}
    if variant == "A":
        net.float()
        extra["dtype of s after net.float()"] = str(net.s.dtype)
    else:
        del net.s
        extra["hasattr(net, 's') after `del net.s`"] = hasattr(net, "s")
    return st0, st1, extra


problems = []
for variant in ["A", "B"]:
    ref0, ref1, ref_extra = history(variant, do_backward=False)
    assert ref0 == ref1, "demo is not sound"
    st0, st1, extra = history(variant, do_backward=True)
    print("variant", variant)
    for key in st0:
        same = st0[key] == st1[key]
        if key in ("slots", "state_dict") or not same:
            print("   %-10s before backward: %s" % (key, [x if isinstance(x, str) else x[0] for x in st0[key]]))
            print("   %-10s after  backward: %s" % (key, [x if isinstance(x, str) else x[0] for x in st1[key]]))
        if not same:
            problems.append("[%s] %s changed during the backward pass" % (variant, key))
    for k in extra:
        if extra[k] != ref_extra[k]:
            problems.append("[%s] %s: %s (without the backward pass: %s)" % (variant, k, extra[k], ref_extra[k]))

if problems:
    print("FAIL")
    for p in problems:
        print(" -", p)
    sys.exit(1)
print("PASS")
sys.exit(0)
