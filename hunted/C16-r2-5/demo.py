"""
C16 demo 5: the backward pass of mcquad, run while torch.inference_mode() is active, returns
ZERO for every gradient - silently.  The same graph differentiated outside inference mode gives
the right numbers, and the explicit sample mean (plain torch ops) differentiated INSIDE inference
mode gives the right numbers too, so running a backward pass there is something torch supports.

Acceptable behaviours: the correct gradient, or an error.  Deterministic (mhcustom, fixed step).
"""
import sys
import torch
import xitorch as xt
from xitorch.integrate import mcquad

torch.set_default_dtype(torch.float64)

def step(x, *_):
    return 0.6 * x + 0.5 * torch.cos(3 * x + 1.0)

def chain(x0, nsamples, nburnout):
    x = x0
    for _ in range(nburnout):
        x = step(x)
    xs = [x]
    for _ in range(nsamples - 1):
        x = step(x)
        xs.append(x)
    return xs

X0 = torch.tensor([0.3, -0.2])
OPT = dict(method="mhcustom", nsamples=5, nburnout=2, custom_step=step)
XS = chain(X0, 5, 2)
N = len(XS)

def f(x, a):
    return torch.sin(a * x)

def logp(x, s):
    return -(x * x).sum() / (2 * s * s)

a = torch.tensor([1.2, 0.7], requires_grad=True)
s = torch.tensor(0.9, requires_grad=True)

# explicit estimator: mean of f; its s-derivative is the covariance (score function) estimator
def explicit():
    lps = [logp(x, s) for x in XS]
    w = [torch.exp(l - l.detach()) for l in lps]          # value 1, derivative dlogp/ds
    return sum(wi * f(x, a) for wi, x in zip(w, XS)) / sum(w)

res = mcquad(f, logp, X0, fparams=[a], pparams=[s], **OPT)
ref = explicit()
print("value library", res.detach(), " explicit", ref.detach())
tgt, tgt_ref = res.sum(), ref.sum()

g_out = torch.autograd.grad(tgt, [a, s], retain_graph=True)
g_ref_out = torch.autograd.grad(tgt_ref, [a, s], retain_graph=True)
print("backward outside inference mode : library", g_out, "\n                                  explicit", g_ref_out)

failures = []
if not all(torch.allclose(u, v) for u, v in zip(g_out, g_ref_out)):
    failures.append("gradient outside inference mode differs from the explicit estimator")

with torch.inference_mode():
    g_ref_in = torch.autograd.grad(tgt_ref, [a, s], retain_graph=True)
    try:
        g_in = torch.autograd.grad(tgt, [a, s], retain_graph=True)
    except RuntimeError as e:
        g_in = None
        print("backward inside inference mode  : library raised (acceptable):", str(e)[:100])
if g_in is not None:
    print("backward inside inference mode  : library", g_in, "\n                                  explicit", g_ref_in)
    if not all(torch.allclose(u, v) for u, v in zip(g_in, g_ref_in)):
        failures.append("backward inside torch.inference_mode(): mcquad silently returned %s, the mean of df / "
                        "covariance estimator is %s" % ([t.tolist() for t in g_in], [t.tolist() for t in g_ref_in]))

# object-held parameters behave the same
class M(xt.EditableModule):
    def __init__(self, a, s):
        self.a = a
        self.s = s
    def f(self, x):
        return f(x, self.a)
    def logp(self, x):
        return logp(x, self.s)
    def getparamnames(self, methodname, prefix=""):
        return [prefix + ("a" if methodname == "f" else "s")]
m = M(a, s)
tgt2 = mcquad(m.f, m.logp, X0, **OPT).sum()
with torch.inference_mode():
    try:
        g2 = torch.autograd.grad(tgt2, [a, s])
    except RuntimeError as e:
        g2 = None
        print("object-held, inside inference mode: raised (acceptable):", str(e)[:100])
if g2 is not None:
    print("object-held, inside inference mode: library", g2)
    if not all(torch.allclose(u, v) for u, v in zip(g2, g_ref_out)):
        failures.append("object-held parameters: same silent zeros")

if failures:
    print("FAIL:")
    for l in failures:
        print("   ", l)
    sys.exit(1)
print("PASS")
sys.exit(0)
