"""
C11 / 5: an mv-only operator whose product does not depend on its argument through
autograd - the zero operator, or an operator that is zero for the current value of a
coefficient - has no adjoint products: rmv / rmm / .H / any expression containing it
raise, although mv / mm / fullmatrix work and the matrix (all zeros) has a perfectly good
conjugate transpose.
"""
import sys
import torch
from xitorch import LinearOperator

torch.manual_seed(0)
dt = torch.float64


class Zero(LinearOperator):
    """the p x q zero operator, defined from its matrix-vector product alone"""
    def __init__(self, p, q):
        super().__init__(shape=(p, q), dtype=dt)
        self.p = p

    def _mv(self, x):
        return x.new_zeros((*x.shape[:-1], self.p))

    def _getparamnames(self, prefix=""):
        return []


class Switched(LinearOperator):
    """c * M, with the usual short cut for c == 0"""
    def __init__(self, mat, c):
        super().__init__(shape=mat.shape, dtype=mat.dtype)
        self.mat = mat
        self.c = c

    def _mv(self, x):
        if self.c == 0:
            return torch.zeros((*x.shape[:-1], self.mat.shape[-2]), dtype=x.dtype)
        return self.c * torch.matmul(self.mat, x.unsqueeze(-1)).squeeze(-1)

    def _getparamnames(self, prefix=""):
        return [prefix + "mat"]


def attempt(label, fn, ref):
    try:
        out = fn()
        ok = out.shape == ref.shape and torch.allclose(out, ref)
        print("    %-26s %s" % (label, "ok" if ok else "WRONG VALUE/SHAPE %s" % (tuple(out.shape),)))
        return ok
    except Exception as e:
        print("    %-26s raises %s: %s" % (label, type(e).__name__, str(e)[:55]))
        return False


ok = True
Z = Zero(3, 4)
zm = torch.zeros(3, 4, dtype=dt)
print("zero operator (3,4):")
ok &= attempt("mv", lambda: Z.mv(torch.ones(4, dtype=dt)), torch.zeros(3, dtype=dt))
ok &= attempt("fullmatrix", lambda: Z.fullmatrix(), zm)
ok &= attempt("rmv", lambda: Z.rmv(torch.ones(3, dtype=dt)), torch.zeros(4, dtype=dt))
ok &= attempt("rmm", lambda: Z.rmm(torch.ones(3, 2, dtype=dt)), torch.zeros(4, 2, dtype=dt))
ok &= attempt("H.fullmatrix", lambda: Z.H.fullmatrix(), zm.T)

print("expression A + Z with a dense-wrapped A:")
a = torch.randn(3, 4, dtype=dt)
S = LinearOperator.m(a) + Z
ok &= attempt("(A+Z).fullmatrix", lambda: S.fullmatrix(), a)
ok &= attempt("(A+Z).rmv", lambda: S.rmv(torch.ones(3, dtype=dt)), a.T @ torch.ones(3, dtype=dt))
ok &= attempt("(A+Z).H.fullmatrix", lambda: S.H.fullmatrix(), a.T)

print("c*M with c = 2 and then the same class with c = 0:")
m = torch.randn(3, 3, dtype=dt)
for c in [2.0, 0.0]:
    Sw = Switched(m, c)
    ok &= attempt("c=%g fullmatrix" % c, lambda: Sw.fullmatrix(), c * m)
    ok &= attempt("c=%g rmv" % c, lambda: Sw.rmv(torch.ones(3, dtype=dt)), c * m.T @ torch.ones(3, dtype=dt))

if not ok:
    print("FAIL: rmv/rmm/.H of an mv-only operator raise when its product does not depend "
          "on the argument (zero operator), while mv/mm/fullmatrix work")
    sys.exit(1)
print("PASS")
sys.exit(0)
