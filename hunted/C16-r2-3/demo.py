"""
C16 demo 3: a tensor parameter that does NOT require grad (data, a fixed scale, ...) is passed
in fparams / pparams; it is modified IN PLACE between the forward call of mcquad and the backward
pass (e.g. the data buffer is refilled with the next batch before .backward() of the previous
result).  PyTorch's own ops detect this ("one of the variables needed for gradient computation
has been modified by an inplace operation").  mcquad silently returns a gradient that is neither
an error nor the mean of df (resp. the covariance estimator) of the expectation it returned.

Acceptable behaviours: the correct gradient of the returned value, or an error.
Deterministic: method="mhcustom" with a fixed custom step.
"""
import sys
import torch
from xitorch.integrate import mcquad

torch.set_default_dtype(torch.float64)

def step(x, *_):
    return 0.6 * x + 0.5 * torch.cos(3 * x + 1.0)

def chain(x0, nsamples, nburnout):
    x = x0
    for _ in range(nburnout):
        x = step(x)
    xs = [x]
    for _ in range(nsamples - 1):
        x = step(x)
        xs.append(x)
    return xs

X0 = torch.tensor([0.3, -0.2])
OPT = dict(method="mhcustom", nsamples=5, nburnout=2, custom_step=step)
XS = chain(X0, 5, 2)
N = len(XS)

def f(x, a, d):            # d: data tensor, requires no grad
    return torch.sin(a * x * d)

def logp(x, s, c):         # c: fixed tensor, requires no grad
    return -(x * x * c).sum() / (2 * s * s)

failures = []

def run(title, which):
    a = torch.tensor([1.2, 0.7], requires_grad=True)
    s = torch.tensor(0.9, requires_grad=True)
    d = torch.tensor([2.0, 3.0])
    c = torch.tensor([1.0, 0.5])

    res = mcquad(f, logp, X0, fparams=[a, d], pparams=[s, c], **OPT)

    # what the gradient of the returned value is: mean of df, covariance estimator of log p
    fs = [f(x, a, d) for x in XS]
    mean = sum(fs) / N
    assert torch.allclose(mean, res)
    ga_true, = torch.autograd.grad(mean.sum(), a)
    lps = [logp(x, s, c) for x in XS]
    score = [torch.autograd.grad(l, s)[0] for l in lps]
    gs_true = sum((fi.detach() - mean.detach()).sum() * sc for fi, sc in zip(fs, score)) / N

    target = res.sum()
    # the history: the non-differentiable tensor is overwritten in place before backward
    if which == "f":
        d.mul_(2.0)
    else:
        c.mul_(3.0)

    try:
        ga, gs = torch.autograd.grad(target, [a, s])
    except RuntimeError as e:
        print("%s: backward raised (acceptable): %s" % (title, str(e)[:90]))
        return
    print("%s:" % title)
    print("    d/da  library", ga, " correct", ga_true)
    print("    d/ds  library", gs, " correct", gs_true)
    if not (torch.allclose(ga, ga_true) and torch.allclose(gs, gs_true)):
        failures.append("%s: silently returned a gradient that is not the gradient of the returned expectation"
                        % title)

# control: no modification -> must match
a = torch.tensor([1.2, 0.7], requires_grad=True)
s = torch.tensor(0.9, requires_grad=True)
d = torch.tensor([2.0, 3.0])
c = torch.tensor([1.0, 0.5])
res = mcquad(f, logp, X0, fparams=[a, d], pparams=[s, c], **OPT)
mean = sum(f(x, a, d) for x in XS) / N
ga, = torch.autograd.grad(res.sum(), a)
ga_true, = torch.autograd.grad(mean.sum(), a)
print("control (nothing modified): d/da library", ga, " correct", ga_true)
if not torch.allclose(ga, ga_true):
    failures.append("control differs")

# what torch itself does in the same situation
a = torch.tensor([1.2, 0.7], requires_grad=True)
d = torch.tensor([2.0, 3.0])
y = torch.sin(a * d).sum()
d.mul_(2.0)
try:
    torch.autograd.grad(y, a)
    print("torch itself: no error")
except RuntimeError as e:
    print("torch itself raises:", str(e)[:100])

run("data tensor of f modified in place", "f")
run("fixed tensor of log p modified in place", "p")

if failures:
    print("FAIL:")
    for l in failures:
        print("   ", l)
    sys.exit(1)
print("PASS")
sys.exit(0)
