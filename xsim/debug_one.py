"""debug helper: run one or several runs in-process and print results
usage: python xsim/debug_one.py checks.c10_restore quick 0 20"""
import sys, os, json, time, traceback
sys.path.insert(0, os.environ.get("XSIM_REPO", "/repo")); sys.path.insert(0, os.path.dirname(os.path.dirname(os.path.abspath(__file__))))
import warnings; warnings.filterwarnings("ignore", category=FutureWarning)
import importlib, torch
torch.set_num_threads(1)
from xsim.choice import ChoiceSource, run_seed
mod = importlib.import_module(sys.argv[1]); tier = sys.argv[2]
a, b = int(sys.argv[3]), int(sys.argv[4])
cfg = dict(mod.TIERS[tier]); cfg["tier"] = tier
seed = int(os.environ.get("VERIF_SEED", "1"))
verbose = os.environ.get("V", "0") == "1"
rep = os.environ.get("REPLAY")
for i in range(a, b):
    cs = ChoiceSource(seed=run_seed(seed, i)) if not rep else ChoiceSource(replay=json.load(open(rep))["choices"])
    t0 = time.time()
    try:
        devnull = open(os.devnull, "w"); old = sys.stdout; sys.stdout = devnull
        try:
            r = mod.run(cs, cfg)
        finally:
            sys.stdout = old
    except BaseException:
        print("RUN", i, "HARNESS ERROR"); traceback.print_exc(); continue
    print("RUN", i, "evals", r["evals"], "events", r["events"], "viol", len(r["violations"]), "%.2fs" % (time.time() - t0),
          json.dumps(r["decoded"].get("kind", "")), [o.get("op") if isinstance(o, dict) else o for o in r["decoded"].get("ops", [])][:6] if not verbose else "")
    seen = set()
    for v in r["violations"]:
        k = json.dumps(v["sig"], sort_keys=True)
        if k in seen: continue
        seen.add(k)
        print("   ", k, "\n      ", v["detail"][:600])
    if verbose:
        print(json.dumps(r["decoded"], indent=1, default=str)[:5000])
