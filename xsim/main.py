import sys
from xsim.runner import main

if __name__ == "__main__":
    rc = main(sys.argv[1], sys.argv[2:])
    sys.stdout.flush()
    sys.exit(rc)
