"""Runner: seeded batches of simulated runs in forked children, exit contract,
minimisation, replay files, known findings, evidence.

exit 0  property held on everything explored (possibly KNOWN-FINDING lines)
exit 1  + "VIOLATION property=<id> replay=<path>"  violation not listed as known
exit 2  harness error / timeout / non-reproducing replay (never 0)
"""
from __future__ import annotations

import io
import json
import os
import pickle
import select
import signal
import struct
import subprocess
import sys
import time
import traceback
from typing import Any, Dict, List, Optional

VERIF_DIR = os.path.dirname(os.path.dirname(os.path.abspath(__file__)))
REPO_DIR = os.environ.get("XSIM_REPO", "/repo")
PINNED_ENV = {
    "PYTHONHASHSEED": "0",
    "OMP_NUM_THREADS": "1",
    "MKL_NUM_THREADS": "1",
    "OPENBLAS_NUM_THREADS": "1",
    "PYTHONDONTWRITEBYTECODE": "1",
    "XSIM_PINNED": "1",
}


# ------------------------------------------------------------------ env pin
def ensure_pinned_env():
    """re-exec once with the pinned environment (hash seed, thread counts)"""
    if os.environ.get("XSIM_PINNED") == "1":
        return
    env = dict(os.environ)
    for k, v in PINNED_ENV.items():
        if k == "PYTHONHASHSEED" and "XSIM_HASHSEED" in env:
            env[k] = env["XSIM_HASHSEED"]   # determinism self-test varies it
        else:
            env[k] = v
    pp = [REPO_DIR, VERIF_DIR] + [p for p in env.get("PYTHONPATH", "").split(":") if p]
    env["PYTHONPATH"] = ":".join(pp)
    os.execve(sys.executable, [sys.executable] + sys.argv, env)


def warm_parent():
    """import torch + xitorch in the parent and warm plain torch ops, but never
    instantiate a LinearOperator (class-level caches must be pristine in every
    forked child)."""
    if REPO_DIR not in sys.path:
        sys.path.insert(0, REPO_DIR)
    import warnings
    warnings.filterwarnings("ignore", category=FutureWarning)
    import torch
    torch.set_num_threads(1)
    a = torch.eye(3, dtype=torch.float64).requires_grad_()
    b = (a @ a).sum()
    torch.autograd.grad(b, a, create_graph=True)
    torch.linalg.solve(torch.eye(2, dtype=torch.float64), torch.ones(2, 1, dtype=torch.float64))
    torch.linalg.eigh(torch.eye(2, dtype=torch.float64))
    import numpy  # noqa
    import scipy.sparse.linalg  # noqa
    import xitorch  # noqa
    import xitorch.linalg, xitorch.optimize, xitorch.integrate, xitorch.grad, xitorch.interpolate  # noqa
    assert os.path.realpath(xitorch.__file__).startswith(os.path.realpath(REPO_DIR)), \
        "xitorch imported from %s, not from %s" % (xitorch.__file__, REPO_DIR)


# ------------------------------------------------------------ forked children
def _child_main(wfd: int, fn, jobs: List[Any]):
    """runs in the forked child: execute fn(job) for each job, stream pickles"""
    try:
        # xitorch prints in debug mode; keep the parent's stdout clean
        devnull = os.open(os.devnull, os.O_WRONLY)
        os.dup2(devnull, 1)
        os.dup2(devnull, 2)
        sys.stdout = io.TextIOWrapper(os.fdopen(1, "wb", closefd=False), write_through=True)
        sys.stderr = io.TextIOWrapper(os.fdopen(2, "wb", closefd=False), write_through=True)
        out = os.fdopen(wfd, "wb")
        for job in jobs:
            try:
                res = fn(job)
            except BaseException:  # harness error, classified apart from violations
                res = {"harness_error": traceback.format_exc(), "job": repr(job)[:300]}
            blob = pickle.dumps(res, protocol=4)
            out.write(struct.pack("<Q", len(blob)))
            out.write(blob)
            out.flush()
        out.close()
    finally:
        os._exit(0)


class _Child:
    def __init__(self, fn, jobs, timeout_s):
        r, w = os.pipe()
        pid = os.fork()
        if pid == 0:
            os.close(r)
            _child_main(w, fn, jobs)
        os.close(w)
        self.pid = pid
        self.rfd = r
        self.jobs = jobs
        self.buf = bytearray()
        self.results: List[Any] = []
        self.deadline = time.monotonic() + timeout_s
        self.done = False
        self.timed_out = False

    def feed(self):
        data = os.read(self.rfd, 1 << 20)
        if not data:
            self.finish()
            return
        self.buf += data
        while len(self.buf) >= 8:
            (n,) = struct.unpack("<Q", self.buf[:8])
            if len(self.buf) < 8 + n:
                break
            blob = bytes(self.buf[8:8 + n])
            del self.buf[:8 + n]
            self.results.append(pickle.loads(blob))

    def finish(self):
        if self.done:
            return
        self.done = True
        os.close(self.rfd)
        try:
            os.waitpid(self.pid, 0)
        except ChildProcessError:
            pass

    def kill(self):
        self.timed_out = True
        try:
            os.kill(self.pid, signal.SIGKILL)
        except ProcessLookupError:
            pass
        self.finish()


def run_jobs(fn, jobs: List[Any], workers: int, batch: int, timeout_s: float,
             progress=None) -> List[Any]:
    """run fn(job) for every job, each batch of jobs in its own forked child.
    Returns results in job order (independent of scheduling)."""
    batches = [list(range(i, min(i + batch, len(jobs)))) for i in range(0, len(jobs), batch)]
    results: List[Any] = [None] * len(jobs)
    live: Dict[int, tuple] = {}
    nxt = 0
    ndone = 0
    while nxt < len(batches) or live:
        while nxt < len(batches) and len(live) < workers:
            idxs = batches[nxt]
            nxt += 1
            ch = _Child(fn, [jobs[i] for i in idxs], timeout_s)
            live[ch.rfd] = (ch, idxs)
        now = time.monotonic()
        tmo = max(0.0, min(ch.deadline for ch, _ in live.values()) - now)
        ready, _, _ = select.select(list(live.keys()), [], [], min(tmo, 1.0))
        for fd in ready:
            ch, idxs = live[fd]
            ch.feed()
        now = time.monotonic()
        for fd in list(live.keys()):
            ch, idxs = live[fd]
            if not ch.done and now > ch.deadline:
                ch.kill()
            if ch.done:
                for j, i in enumerate(idxs):
                    if j < len(ch.results):
                        results[i] = ch.results[j]
                    elif ch.timed_out:
                        results[i] = {"harness_error": "timeout after %.0fs" % timeout_s,
                                      "timeout": True, "job": repr(jobs[i])[:300]}
                    else:
                        results[i] = {"harness_error": "child died without result",
                                      "job": repr(jobs[i])[:300]}
                ndone += len(idxs)
                del live[fd]
                if progress:
                    progress(ndone, len(jobs))
    return results


# ------------------------------------------------------------ known findings
def load_known():
    path = os.path.join(VERIF_DIR, "known_findings.json")
    if not os.path.exists(path):
        return []
    with open(path) as f:
        d = json.load(f)
    return [x for x in d.get("findings", []) if x.get("status", "open") == "open"]


def match_known(pid: str, sig: Dict[str, str], known) -> Optional[dict]:
    for k in known:
        if k.get("property") != pid:
            continue
        m = k.get("match", {})
        # a match value is a string (equality) or a list (any of)
        if m and all((sig.get(a) in b) if isinstance(b, list) else (sig.get(a) == b) for a, b in m.items()):
            return k
    return None


def sig_key(sig: Dict[str, str]) -> str:
    return json.dumps(sig, sort_keys=True)


# ------------------------------------------------------------------- main
def _exec_run(args):
    """executed inside the forked child"""
    module_name, seed, replay, cfg = args
    import importlib
    mod = importlib.import_module(module_name)
    from xsim.choice import ChoiceSource
    cs = ChoiceSource(seed=seed, replay=replay)
    res = mod.run(cs, cfg)
    res["choices"] = list(cs.choices)
    res["seed"] = seed
    return res


def _same_class(res, target_key: str) -> bool:
    if not isinstance(res, dict) or "violations" not in res:
        return False
    return any(sig_key(v["sig"]) == target_key for v in res["violations"])


def minimise(module_name, cfg, choices, target_key, budget, timeout_s):
    from xsim.choice import shrink

    def still_fails(cand):
        r = run_jobs(_exec_run, [(module_name, None, list(cand), cfg)], 1, 1, timeout_s)[0]
        return _same_class(r, target_key)

    return shrink(choices, still_fails, budget=budget)


def write_evidence(mod, tier, seed, results, wall, nviol, extra=None):
    ev_dir = os.path.join(VERIF_DIR, "evidence")
    os.makedirs(ev_dir, exist_ok=True)
    stats: Dict[str, int] = {}
    cases = set()
    evals = 0
    events = 0
    samples = []
    for r in results:
        if not isinstance(r, dict) or "violations" not in r:
            continue
        for k, v in r.get("stats", {}).items():
            stats[k] = stats.get(k, 0) + v
        for c in r.get("cases", []):
            cases.add(c if isinstance(c, str) else json.dumps(c))
        evals += r.get("evals", 1)
        events += r.get("events", 0)
    # samples: first, middle, last decoded runs (deterministic choice)
    ok = [r for r in results if isinstance(r, dict) and "decoded" in r]
    for i in sorted(set([0, len(ok) // 3, (2 * len(ok)) // 3, len(ok) - 1])):
        if 0 <= i < len(ok):
            samples.append({"seed": ok[i].get("seed"), "decoded": ok[i]["decoded"],
                            "verdict": "violation" if ok[i]["violations"] else "held"})
    faults = {k[len("fault."):]: v for k, v in stats.items() if k.startswith("fault.")}
    reach = {k[len("reach."):]: v for k, v in stats.items() if k.startswith("reach.")}
    other = {k: v for k, v in stats.items() if not k.startswith(("fault.", "reach."))}
    cov = {
        "evaluations": int(evals),
        "distinct_nontrivial": len(cases),
        "rule": mod.RULE,
        "samples": samples,
        "exhaustive": False,
        "simulated_runs": len(results),
        "runs_per_hour": int(len(results) / max(wall, 1e-9) * 3600),
        "executions_per_hour": int(evals / max(wall, 1e-9) * 3600),
        "probe_events": int(events),
        "simulated_time": "not applicable: xitorch has no clock or timer; progress is "
                          "measured in probe events (entries into harness-owned callees)",
        "faults_fired": faults,
        "reach_probes": reach,
        "counters": other,
        "real_components": getattr(mod, "REAL", []),
        "stub_components": getattr(mod, "STUB", []),
        "workers": int(os.environ.get("XSIM_WORKERS", "16")),
    }
    if extra:
        cov.update(extra)
    ev = {
        "property_id": mod.PID,
        "tier": tier,
        "seed": int(seed),
        "level": mod.LEVEL,
        "coverage": cov,
        "assumptions": getattr(mod, "ASSUMPTIONS", []),
        "wall_s": round(wall, 2),
        "violations": int(nviol),
    }
    with open(os.path.join(ev_dir, "%s.json" % mod.PID), "w") as f:
        json.dump(ev, f, indent=1, sort_keys=True, default=str)
        f.write("\n")


def main(module_name: str, argv: List[str]) -> int:
    ensure_pinned_env()
    import importlib
    t0 = time.monotonic()
    warm_parent()
    mod = importlib.import_module(module_name)
    pid = mod.PID

    import argparse
    ap = argparse.ArgumentParser()
    ap.add_argument("tier", nargs="?", default=os.environ.get("VERIF_TIER", "quick"))
    ap.add_argument("--replay", default=None)
    ap.add_argument("--runs", type=int, default=None)
    ap.add_argument("--workers", type=int, default=int(os.environ.get("XSIM_WORKERS", "16")))
    ap.add_argument("--digests", default=None, help="write per-run digests to this file")
    ap.add_argument("--no-evidence", action="store_true")
    ap.add_argument("--no-minimise", action="store_true")
    a = ap.parse_args(argv)
    os.environ["XSIM_WORKERS"] = str(a.workers)

    if a.replay:
        return replay_main(mod, module_name, a.replay)

    tier = a.tier
    if tier not in mod.TIERS:
        print("unknown tier %r" % tier)
        return 2
    cfg = dict(mod.TIERS[tier])
    cfg["tier"] = tier
    seed = int(os.environ.get("VERIF_SEED", "1"))
    nruns = a.runs if a.runs is not None else cfg["runs"]
    from xsim.choice import run_seed
    jobs = [(module_name, run_seed(seed, i), None, cfg) for i in range(nruns)]
    print("%s %s: VERIF_SEED=%d runs=%d workers=%d" % (pid, tier, seed, nruns, a.workers), flush=True)
    results = run_jobs(_exec_run, jobs, a.workers, cfg.get("batch", 1), cfg.get("timeout_s", 300))

    harness_errors = [r for r in results if not isinstance(r, dict) or "harness_error" in r]
    good = [r for r in results if isinstance(r, dict) and "violations" in r]

    # batch-level (statistical) clauses
    batch_viol = []
    if hasattr(mod, "batch_check"):
        batch_viol = mod.batch_check(good, cfg)

    known = load_known()
    known_hit: Dict[str, int] = {}
    unknown: Dict[str, list] = {}
    for r in good:
        for v in r["violations"]:
            k = match_known(pid, v["sig"], known)
            if k is not None:
                known_hit[k["key"]] = known_hit.get(k["key"], 0) + 1
            else:
                unknown.setdefault(sig_key(v["sig"]), []).append((r, v))
    for v in batch_viol:
        unknown.setdefault(sig_key(v["sig"]), []).append((None, v))

    if a.digests:
        with open(a.digests, "w") as f:
            for i, r in enumerate(results):
                f.write("%d %s\n" % (i, r.get("digest", "ERR") if isinstance(r, dict) else "ERR"))

    for k in known:
        if k.get("property") == pid and k["key"] in known_hit:
            print("KNOWN-FINDING: property=%s %s (%s; hit %d times)" %
                  (pid, k["what"], k["key"], known_hit[k["key"]]))

    rc = 0
    replay_dir = os.path.join(VERIF_DIR, "replays")
    shrink_reexec = 0
    if unknown:
        rc = 1
        os.makedirs(replay_dir, exist_ok=True)
        for n, (key, lst) in enumerate(sorted(unknown.items(), key=lambda kv: -len(kv[1]))):
            r, v = lst[0]
            if r is None:   # batch-level violation: the replay is the seed set
                path = os.path.join(replay_dir, "%s-batch-seed%d-%d.json" % (pid, seed, n))
                with open(path, "w") as f:
                    json.dump({"property": pid, "kind": "batch", "VERIF_SEED": seed, "tier": tier,
                               "runs": nruns, "violation": v}, f, indent=1, default=str)
                print("VIOLATION property=%s replay=%s" % (pid, path))
                print("  batch-level: %s" % v.get("detail", "")[:500])
                continue
            choices = r["choices"]
            mini, used = choices, 0
            if n < 3 and not a.no_minimise:
                mini, used = minimise(module_name, cfg, choices, key,
                                      cfg.get("shrink_budget", 200), cfg.get("timeout_s", 300))
                shrink_reexec += used
            # final fresh-child execution of the minimised list to get its decoded form
            rr = run_jobs(_exec_run, [(module_name, None, list(mini), cfg)], 1, 1,
                          cfg.get("timeout_s", 300))[0]
            vv = [x for x in rr.get("violations", []) if sig_key(x["sig"]) == key] if isinstance(rr, dict) else []
            path = os.path.join(replay_dir, "%s-seed%d-run%d.json" % (pid, seed, results.index(r)))
            with open(path, "w") as f:
                json.dump({"property": pid, "kind": "run", "VERIF_SEED": seed, "tier": tier,
                           "cfg": cfg, "run_seed": r["seed"], "choices": list(mini),
                           "original_len": len(choices), "shrink_reexecutions": used,
                           "sig": json.loads(key),
                           "decoded": rr.get("decoded") if isinstance(rr, dict) else None,
                           "violation": (vv[0] if vv else v),
                           "digest": rr.get("digest") if isinstance(rr, dict) else None,
                           "occurrences_in_batch": len(lst)}, f, indent=1, default=str)
            print("VIOLATION property=%s replay=%s" % (pid, path))
            print("  sig=%s occurrences=%d choices %d->%d" % (key, len(lst), len(choices), len(mini)))
            print("  %s" % str((vv[0] if vv else v).get("detail", ""))[:1500])
            if n >= 8:
                print("  ... %d more violation classes not written" % (len(unknown) - n - 1))
                break

    if harness_errors:
        rc = 2 if rc == 0 else rc
        print("HARNESS-ERROR: %d run(s) failed in the harness (not a verdict)" % len(harness_errors))
        for r in harness_errors[:3]:
            print(str(r.get("harness_error") if isinstance(r, dict) else r)[-3000:])

    wall = time.monotonic() - t0
    if not a.no_evidence:
        extra = {"known_findings_hit": known_hit, "shrink_reexecutions": shrink_reexec,
                 "harness_errors": len(harness_errors)}
        if hasattr(mod, "evidence_extra"):
            extra.update(mod.evidence_extra(good, cfg))
        write_evidence(mod, tier, seed, good, wall, sum(len(v) for v in unknown.values()), extra)
    nv = sum(len(v) for v in unknown.values())
    print("%s %s: runs=%d violations=%d known=%d harness_errors=%d wall=%.1fs exit=%d" %
          (pid, tier, len(results), nv, sum(known_hit.values()), len(harness_errors), wall, rc), flush=True)
    return rc


def replay_main(mod, module_name, path) -> int:
    with open(path) as f:
        rep = json.load(f)
    if rep.get("kind") == "batch":
        print("batch-level replay: re-run `VERIF_SEED=%d ./check %s %s`" %
              (rep["VERIF_SEED"], mod.PID, rep["tier"]))
        return 2
    cfg = rep.get("cfg") or dict(mod.TIERS[rep.get("tier", "quick")])
    r = run_jobs(_exec_run, [(module_name, None, rep["choices"], cfg)], 1, 1, cfg.get("timeout_s", 300))[0]
    if not isinstance(r, dict) or "violations" not in r:
        print("HARNESS-ERROR during replay: %s" % (r,))
        return 2
    key = sig_key(rep["sig"])
    print(json.dumps(r.get("decoded"), indent=1, default=str)[:6000])
    if _same_class(r, key):
        v = [x for x in r["violations"] if sig_key(x["sig"]) == key][0]
        print("VIOLATION property=%s replay=%s" % (mod.PID, path))
        print("  reproduced: %s" % v.get("detail", "")[:2000])
        if rep.get("digest") and r.get("digest") != rep.get("digest"):
            print("  note: event-log digest differs from the recorded one (code under /repo changed?)")
        return 1
    if r["violations"]:
        print("VIOLATION property=%s replay=%s" % (mod.PID, path))
        print("  a different violation class occurred: %s" % sig_key(r["violations"][0]["sig"]))
        return 1
    print("REPLAY-CLEAN: the recorded violation does not occur on the current tree")
    return 0
