"""The harness's own traversal of a user object (independent of xitorch's):
records every tensor slot (identity, value, requires_grad, Parameter-or-tensor)
and the shape of every container (list lengths, dict key order, attribute
names holding tensors or containers, nn.Module registration order).

The snapshot keeps strong references to the tensors so an id() can never be
recycled while it is alive.
"""
from __future__ import annotations

from typing import Any, Dict, List, Tuple

import torch

# non-tensor bookkeeping that xitorch's EditableModule keeps on the user's object
# is not part of the statement ("holds exactly the same tensor objects"); any
# attribute that holds no tensor and no container of tensors is ignored.


class Slot(object):
    __slots__ = ("path", "ref", "ident", "is_param", "requires_grad", "value", "version")

    def __init__(self, path, t, light=False):
        self.path = path
        self.ref = t
        self.ident = id(t)
        self.is_param = isinstance(t, torch.nn.Parameter)
        self.requires_grad = t.requires_grad
        self.value = None if light else t.detach().clone()
        self.version = t._version


def _walk(obj, path, slots, shape, seen, depth=0, light=False):
    if depth > 12:
        return
    if isinstance(obj, torch.Tensor):
        slots.append(Slot(path, obj, light))
        return
    if id(obj) in seen:
        return
    if isinstance(obj, torch.nn.Module):
        seen.add(id(obj))
        shape.append((path, "module", tuple(obj._parameters.keys()), tuple(obj._buffers.keys()),
                      tuple(obj._modules.keys())))
        for k, v in obj._parameters.items():
            if v is not None:
                _walk(v, "%s.%s" % (path, k), slots, shape, seen, depth + 1, light)
            else:
                shape.append(("%s.%s" % (path, k), "none-param"))
        for k, v in obj._buffers.items():
            if v is not None:
                _walk(v, "%s.%s" % (path, k), slots, shape, seen, depth + 1, light)
        for k, v in obj._modules.items():
            if v is not None:
                _walk(v, "%s.%s" % (path, k), slots, shape, seen, depth + 1, light)
        # plain attributes (stray tensors shadowing a parameter, list/dict members)
        names = []
        # sorted: a plain tensor temporarily shadowing a registered parameter is a new __dict__ key each time,
        # so the insertion order of such attributes carries no meaning (the registration order of the
        # parameters themselves is recorded above and is judged)
        for k, v in sorted(obj.__dict__.items(), key=lambda kv: kv[0]):
            if k in ("_parameters", "_buffers", "_modules") or (k.startswith("_") and not _holds_tensor(v)):
                continue
            if _holds_tensor(v):
                names.append(k)
                _walk(v, "%s.%s" % (path, k), slots, shape, seen, depth + 1, light)
        shape.append((path, "module-attrs", tuple(names)))
        return
    if isinstance(obj, (list, tuple)):
        seen.add(id(obj))
        shape.append((path, type(obj).__name__, len(obj)))
        for i, v in enumerate(obj):
            if _holds_tensor(v):
                _walk(v, "%s[%d]" % (path, i), slots, shape, seen, depth + 1, light)
            else:
                shape.append(("%s[%d]" % (path, i), "leaf", _leafrepr(v)))
        return
    if isinstance(obj, dict):
        seen.add(id(obj))
        shape.append((path, "dict", tuple(repr(k) for k in obj.keys())))
        for k, v in obj.items():
            if _holds_tensor(v):
                _walk(v, "%s[%r]" % (path, k), slots, shape, seen, depth + 1, light)
            else:
                shape.append(("%s[%r]" % (path, k), "leaf", _leafrepr(v)))
        return
    if hasattr(obj, "__dict__"):
        seen.add(id(obj))
        names = []
        for k, v in obj.__dict__.items():
            if _holds_tensor(v):
                names.append(k)
                _walk(v, "%s.%s" % (path, k), slots, shape, seen, depth + 1, light)
        shape.append((path, "object", tuple(names)))
        # tensors the object holds through its class (not overridden by the instance): the same tensor
        # objects must be held the same way afterwards (no entry of the instance's own)
        inherited = []
        for klass in type(obj).__mro__:
            for k, v in vars(klass).items():
                if isinstance(v, torch.Tensor) and k not in obj.__dict__ and k not in inherited:
                    inherited.append(k)
                    _walk(v, "%s.%s" % (path, k), slots, shape, seen, depth + 1, light)
        if inherited:
            shape.append((path, "inherited", tuple(inherited)))
        return


def _leafrepr(v):
    if v is None or isinstance(v, (int, float, str, bool)):
        return repr(v)
    return type(v).__name__


def _holds_tensor(v, depth=0, seen=None) -> bool:
    if isinstance(v, torch.Tensor):
        return True
    if depth > 12:
        return False
    if seen is None:
        seen = set()
    if id(v) in seen:
        return False
    if isinstance(v, torch.nn.Module):
        return True
    if isinstance(v, (list, tuple)):
        seen.add(id(v))
        return any(_holds_tensor(e, depth + 1, seen) for e in v)
    if isinstance(v, dict):
        seen.add(id(v))
        return any(_holds_tensor(e, depth + 1, seen) for e in v.values())
    if hasattr(v, "__dict__") and not isinstance(v, type) and not callable(v):
        seen.add(id(v))
        return any(_holds_tensor(e, depth + 1, seen) for e in v.__dict__.values())
    return False


class Snapshot(object):
    def __init__(self, obj, name="obj", light=False):
        self.name = name
        self.slots: List[Slot] = []
        self.shape: List[tuple] = []
        _walk(obj, name, self.slots, self.shape, set(), 0, light)

    def ident_tuple(self):
        return tuple(s.ident for s in self.slots)

    def paths(self):
        return [s.path for s in self.slots]


def compare(before: Snapshot, obj, expect_ident: Dict[str, Any] = None) -> List[Tuple[str, str]]:
    """compare the current state of obj with a snapshot.

    expect_ident: optional {path: tensor} of slots that are expected to hold a
    *different* tensor right now (harness-opened substitution level).
    Returns a list of (invariant id, detail)."""
    now = Snapshot(obj, before.name, light=True)
    diffs: List[Tuple[str, str]] = []
    if now.shape != before.shape:
        # find first differing record for the message
        bs, ns = before.shape, now.shape
        msg = None
        for i in range(max(len(bs), len(ns))):
            a = bs[i] if i < len(bs) else None
            b = ns[i] if i < len(ns) else None
            if a != b:
                msg = "before=%r now=%r" % (a, b)
                kind = (a or b)[1]
                break
        inv = "I1.param_order" if kind in ("module",) else "I1.structure"
        diffs.append((inv, "container structure / registration order changed: %s" % msg))
    bpaths = before.paths()
    npaths = now.paths()
    if bpaths != npaths:
        diffs.append(("I1.slots", "tensor slots changed: before=%s now=%s" % (bpaths, npaths)))
        return diffs
    for sb, sn in zip(before.slots, now.slots):
        exp = expect_ident.get(sb.path) if expect_ident else None
        if exp is not None:
            if sn.ref is not exp:
                diffs.append(("I5.level_identity", "%s does not hold the tensor installed at this nesting level" % sb.path))
            continue
        if sn.ident != sb.ident:
            same_val = sn.ref.shape == sb.value.shape and torch.equal(sn.ref.detach(), sb.value)
            diffs.append(("I1.identity", "%s holds a different tensor object (value %s, is_param %s->%s, requires_grad %s->%s)"
                          % (sb.path, "equal" if same_val else "DIFFERENT", sb.is_param,
                             isinstance(sn.ref, torch.nn.Parameter), sb.requires_grad, sn.ref.requires_grad)))
            continue
        if sn.ref.shape != sb.value.shape or not torch.equal(sn.ref.detach(), sb.value):
            diffs.append(("I1.value", "%s value changed" % sb.path))
        if sn.ref.requires_grad != sb.requires_grad:
            diffs.append(("I1.requires_grad", "%s requires_grad %s -> %s" % (sb.path, sb.requires_grad, sn.ref.requires_grad)))
        if isinstance(sn.ref, torch.nn.Parameter) != sb.is_param:
            diffs.append(("I1.param_type", "%s Parameter-ness changed" % sb.path))
    return diffs


def idents(obj):
    """identity tuple of all tensor slots (no value copies)"""
    return Snapshot(obj, "o", light=True).ident_tuple()
