"""Harness-owned "peers": the user's objects and functions.

Every callable here is a Probe (it calls SIM.enter on entry).  The mathematics
is deliberately small, analytic and well conditioned; what varies is *how the
tensors are held* by the user's object, because that is what xitorch's
temporary substitution machinery has to take apart and put back.

All objects expose the two logical tensors  W (n x n)  and  b (n)  through
``_W()`` / ``_b()`` and declare them (for EditableModule) in getparamnames.
"""
from __future__ import annotations

from typing import List

import torch

import xitorch
import xitorch.optimize
import xitorch.integrate
from xitorch import EditableModule, LinearOperator

from xsim.probe import SIM

DT = torch.float64

METHODS = ["f_root", "f_equil", "f_min", "f_ode", "f_ode_tuple", "f_quad", "f_mc", "logp",
           "f_jac", "f_hess", "g_step", "f_reent", "f_j17", "f_h17", "f_mc16", "logp16", "g16"]


# ------------------------------------------------------------- the mathematics
def j17_ref(W, b, x, oshape, c, k, s):
    """plain-torch function of everything it depends on: k outputs (reshaped to oshape) of the
    numel(x) inputs; smooth, O(1), well conditioned when k == numel(x)"""
    xv = x.reshape(-1)
    z = W[:k, :xv.shape[0]] @ xv
    y = torch.tanh(z) * s + b[:k] * (xv * c).sum() * 0.3 + 1.5 * xv[:k] + 0.1 * xv[0] ** 2
    return y.reshape(oshape)


def h17_ref(W, b, x, oshape, c, k, s):
    """scalar function with a positive definite Hessian in x"""
    xv = x.reshape(-1)
    z = W[:k, :xv.shape[0]] @ xv
    bb = b[:xv.shape[0]]
    # every tensor argument enters non-linearly, so that the Hessian w.r.t. each of them exists as a graph
    val = (torch.tanh(z) ** 2).sum() * (s * s) * 0.5 + (bb * bb * xv * xv * c * c).sum() * 0.2 + \
        1.5 * (xv * xv).sum() + 0.1 * xv.sum() ** 3
    return val.reshape(oshape)


def f16_ref(W, b, x, a, fkind):
    """integrand family for C16: scalar / vector / tuple / constant outputs"""
    if fkind == "identity":
        return x              # the integrand hands back its own argument (no new tensor)
    if fkind == "view":
        return x.reshape(-1)[:1]      # a view of its argument
    if fkind == "param":
        return b              # a stored tensor itself: a constant integrand
    x = x.reshape(-1)     # the 1-D quadrature sampler hands over 0-d points
    d = x.shape[0]
    sc = torch.cos(a * (x * x).sum()) * (1.0 + 0.1 * (b[:d] * x).sum()) + 0.05 * (W[:d, :d] @ x).sum()
    if fkind == "scalar":
        return sc
    vec = torch.stack([sc, torch.sin(a * x.sum()) + 0.1 * b[0]])
    if fkind == "vector":
        return vec
    if fkind == "tuple":
        return (sc, vec * 0.5)
    if fkind == "tuple_bool":
        # a component that is not floating point (an indicator): its average is a frequency
        return (sc, x.sum() > 0.1)
    if fkind == "const":
        return torch.full((2,), 1.75, dtype=x.dtype) + 0.0 * a
    if fkind == "branch":
        # data-dependent python control flow: on one side of x.sum() = 0.2 the output is a fresh constant that is
        # not connected to any parameter, on the other side it depends on all of them
        if float(x.detach().sum()) > 0.2:
            return vec
        return torch.zeros(2, dtype=x.dtype)
    raise AssertionError(fkind)


LOGP16_RADIUS = [None]   # set per run by the check: the target density vanishes outside max|x_i| <= radius


def logp16_ref(W, b, x, c):
    x = x.reshape(-1)
    d = x.shape[0]
    R = LOGP16_RADIUS[0]
    if R is not None and float(x.detach().abs().max()) > R:
        # outside the support of a truncated density
        return torch.full((), float("-inf"), dtype=x.dtype)
    return -(x * x).sum() * (0.5 + c * c) - 0.1 * ((W[:d, :d] @ x) ** 2).sum() + 0.2 * (b[:d] * x).sum()


G16_KIND = [0]     # set per run by the check: 0 every coordinate moves, 1 last coordinate pinned, 2 single-site update


def g16_ref(x):
    """deterministic contraction used as the caller-supplied step of mhcustom.  Kinds 1 and 2 are what single-site /
    Gibbs-like samplers do: consecutive states share some coordinates without being equal"""
    y = 0.6 * x + 0.3 * torch.cos(x.flip(0)) - 0.1
    k = G16_KIND[0]
    if k == 0 or x.numel() < 2:
        return y
    if k == 1:
        y = y.clone()
        y.reshape(-1)[-1] = x.reshape(-1)[-1]
        return y
    # only the coordinate that would move most is updated
    j = int((y - x).detach().abs().reshape(-1).argmax())
    out = x.clone()
    out.reshape(-1)[j] = y.reshape(-1)[j]
    return out


class Maths(object):
    """mixin: the functions, written against self._W() and self._b()"""
    reentrant = False

    def f_root(self, y, s):
        SIM.enter("f_root", self)
        return y + 0.2 * torch.tanh(self._W() @ y) - self._b() * s

    def f_equil(self, y, s):
        SIM.enter("f_equil", self)
        return 0.3 * torch.tanh(self._W() @ y) + self._b() * s

    def f_min(self, y, s):
        SIM.enter("f_min", self)
        return ((y - self._b() * s) ** 2).sum() + 0.1 * ((self._W() @ y) ** 2).sum()

    def f_ode(self, t, y, s):
        SIM.enter("f_ode", self)
        return -0.5 * (self._W() @ y) + self._b() * s - 0.3 * y

    def f_ode_tuple(self, t, ys, s):
        SIM.enter("f_ode_tuple", self)
        y1, y2 = ys
        return (-0.5 * (self._W() @ y1) + self._b() * s, -0.3 * y2 + y1.sum() * 0.1)

    def _u(self, s):
        # every tensor enters every mixed partial derivative ("generic position"), so that
        # first- and second-order backward passes never meet an unused input
        return s * (1.0 + 0.1 * self._b()) * (1.0 + 0.1 * (self._W() * self._W()).sum())

    def f_quad(self, x, s):
        SIM.enter("f_quad", self)
        x = torch.as_tensor(x, dtype=DT)      # quad probes the function with python numbers too
        return torch.cos(x * self._u(s)) * torch.exp(-x * x)

    def f_mc(self, x, s):
        SIM.enter("f_mc", self)
        return torch.cos(self._u(s) * (x * x).sum())

    def logp(self, x, s):
        SIM.enter("logp", self)
        return -(x * x).sum() * (1.0 + self._u(s)[0] ** 2)

    def g_step(self, x, s):
        SIM.enter("g_step", self)
        return 0.5 * x + 0.1

    def f_jac(self, y, s):
        SIM.enter("f_jac", self)
        return torch.tanh(self._W() @ y) + self._b() * s * y

    def f_hess(self, y, s):
        SIM.enter("f_hess", self)
        return (torch.tanh(self._W() @ y) ** 2).sum() + (self._b() * y * y).sum() * s

    def f_j17(self, x, oshape, c, k, s):
        # tensor arguments of several shapes, non-tensor arguments in between (C17)
        SIM.enter("f_j17", self)
        return j17_ref(self._W(), self._b(), x, oshape, c, k, s)

    def f_h17(self, x, oshape, c, k, s):
        SIM.enter("f_h17", self)
        return h17_ref(self._W(), self._b(), x, oshape, c, k, s)

    def f_mc16(self, x, a, z, fkind):
        SIM.enter("f_mc16", (self, x))
        return f16_ref(self._W(), self._b(), x, a, fkind)

    def logp16(self, x, c, z):
        SIM.enter("logp16", (self, x))
        return logp16_ref(self._W(), self._b(), x, c)

    step_inplace = False

    def g16(self, x, c, z):
        SIM.enter("g16", (self, x))
        if self.step_inplace:
            # a step that advances its argument in place and hands the same tensor back
            x.copy_(g16_ref(x))
            return x
        return g16_ref(x)

    inner_kind = "quad"

    def f_reent(self, y, s):
        # a user function that itself calls another functional on another method
        # of the same object (two wrappers substituting into one object)
        SIM.enter("f_reent", self)
        k = self.inner_kind
        if k != "quad":
            if k == "rootfinder":
                z = xitorch.optimize.rootfinder(self.f_root, torch.zeros_like(y), params=(s,), method="broyden1", maxiter=30)
            elif k == "equilibrium":
                z = xitorch.optimize.equilibrium(self.f_equil, torch.zeros_like(y), params=(s,), method="broyden1",
                                                 maxiter=30)
            else:
                z = xitorch.integrate.solve_ivp(self.f_ode, torch.tensor([0.0, 0.3], dtype=DT), torch.zeros_like(y),
                                                params=(s,), method="rk4")[-1]
            return y + 0.2 * torch.tanh(self._W() @ y) - self._b() * s * (1.0 + 0.01 * z.sum())
        # tensor limits: with number limits quad's own backward raises (a matter of another property)
        c = xitorch.integrate.quad(self.f_quad, torch.tensor(0.0, dtype=DT), torch.tensor(1.0, dtype=DT),
                                   params=(s,), n=3).sum()
        return y + 0.2 * torch.tanh(self._W() @ y) - self._b() * s * (1.0 + 0.01 * c)


def _mk(vals, n, rg_W=True, rg_b=True):
    W = vals["W"].clone().requires_grad_(rg_W)
    b = vals["b"].clone().requires_grad_(rg_b)
    return W, b


# ------------------------------------------------------- EditableModule kinds
class EMBase(Maths, EditableModule):
    NAMES: List[str] = []

    def getparamnames(self, methodname, prefix=""):
        if methodname in METHODS:
            return [prefix + nm for nm in self.NAMES]
        raise KeyError(methodname)


class EMPlain(EMBase):
    NAMES = ["W", "b"]

    def __init__(self, W, b):
        self.W = W
        self.b = b
        self.note = "non-tensor attribute"
        self.index = torch.arange(3)                      # non-float tensor
        self.extra = torch.ones(2, dtype=DT) * 0.5        # undeclared float tensor, unused
        self.bounds = (torch.zeros(1, dtype=DT), 2.5)     # a float tensor inside a tuple (immutable container)

    def _W(self):
        return self.W

    def _b(self):
        return self.b


class EMDerived(EMBase):
    NAMES = ["W", "b"]

    def __init__(self, W, b):
        self.W0 = W
        self.W = W * 1.0      # non-leaf
        self.b = b + 0.0      # non-leaf

    def _W(self):
        return self.W

    def _b(self):
        return self.b


class EMAlias(EMBase):
    # one tensor reachable under two declared names
    NAMES = ["W", "b", "b2"]

    def __init__(self, W, b):
        self.W = W
        self.b = b
        self.b2 = b

    def _W(self):
        return self.W

    def _b(self):
        return 0.5 * (self.b + self.b2)


class EMList(EMBase):
    NAMES = ["ps[0]", "ps[1]"]

    def __init__(self, W, b):
        self.ps = [W, b]

    def _W(self):
        return self.ps[0]

    def _b(self):
        return self.ps[1]


class EMDict(EMBase):
    NAMES = ["d['W']", "d['b']"]

    def __init__(self, W, b):
        self.d = {"W": W, "b": b}

    def _W(self):
        return self.d["W"]

    def _b(self):
        return self.d["b"]


class _Inner(torch.nn.Module):
    def __init__(self, W, b):
        super().__init__()
        self.W = torch.nn.Parameter(W.detach().clone(), requires_grad=W.requires_grad)
        self.b = torch.nn.Parameter(b.detach().clone(), requires_grad=b.requires_grad)


class EMWithNN(EMBase):
    # a torch.nn.Module inside an EditableModule
    NAMES = ["mod.W", "mod.b"]

    def __init__(self, W, b):
        self.mod = _Inner(W, b)

    def _W(self):
        return self.mod.W

    def _b(self):
        return self.mod.b


class EMWithNNPartial(EMBase):
    # a torch.nn.Module inside an EditableModule, whose parameters are declared in
    # an order different from their registration order
    NAMES = ["mod.b", "mod.W"]

    def __init__(self, W, b):
        self.mod = _Inner(W, b)

    def _W(self):
        return self.mod.W

    def _b(self):
        return self.mod.b


class _InnerEM(EditableModule):
    def __init__(self, W):
        self.W = W

    def getparamnames(self, methodname, prefix=""):
        return [prefix + "W"]


class EMNested(EMBase):
    NAMES = ["inner.W", "b"]

    def __init__(self, W, b):
        self.inner = _InnerEM(W)
        self.b = b

    def _W(self):
        return self.inner.W

    def _b(self):
        return self.b


class EMAliasFirst(EMBase):
    # the two names of one tensor come BEFORE another tensor in the declared order (a list with one entry per
    # unique tensor is then shorter than, and misaligned with, the list of names)
    NAMES = ["b", "b2", "W"]

    def __init__(self, W, b):
        self.b = b
        self.b2 = b
        self.W = W

    def _W(self):
        return self.W

    def _b(self):
        return 0.5 * (self.b + self.b2)


EM_KINDS = [EMPlain, EMDerived, EMAlias, EMList, EMDict, EMWithNN, EMNested, EMWithNNPartial, EMAliasFirst]


class EMClassAttr(EMBase):
    # one declared tensor is inherited from the class (shared by all instances): the instance's own __dict__
    # holds no entry for it, and must hold none after a call either
    NAMES = ["W", "b", "gain"]
    gain = torch.tensor(1.0, dtype=DT).requires_grad_()

    def __init__(self, W, b):
        self.W = W
        self.b = b

    def _W(self):
        return self.W

    def _b(self):
        return self.b * self.gain


class _Holder(object):
    def __init__(self, W, b):
        self.W = W
        self.b = b


class EMProxy(EMBase):
    # the declared names are answered by __getattr__ (forwarded to a wrapped object): the proxy itself holds no
    # entry for them, and must hold none after a call either
    NAMES = ["W", "b"]

    def __init__(self, W, b):
        self.inner = _Holder(W, b)

    def __getattr__(self, name):
        if name in ("W", "b"):
            return getattr(self.__dict__["inner"], name)
        raise AttributeError(name)

    def _W(self):
        return self.W

    def _b(self):
        return self.b


# kinds used by the C10 histories only (the other checks keep ALL_KINDS, whose references know W and b only)
C10_EXTRA_KINDS = [EMClassAttr, EMProxy]


class EMCallProxy(EditableModule):
    """a callable EditableModule (the functional is handed the *object*, not a method) that forwards to one
    method of an inner EditableModule, declaring the inner parameters with a prefix"""

    def __init__(self, inner, mname):
        self.inner = inner
        self.mname = mname

    def __call__(self, *args):
        return getattr(self.inner, self.mname)(*args)

    def getparamnames(self, methodname, prefix=""):
        if methodname == "__call__":
            return self.inner.getparamnames(self.mname, prefix=prefix + "inner.")
        raise KeyError(methodname)


class NNCallProxy(torch.nn.Module):
    """a callable torch.nn.Module whose forward() goes to one method of a sub-module"""

    def __init__(self, inner, mname):
        super().__init__()
        self.inner = inner
        self.mname = mname

    def forward(self, *args):
        return getattr(self.inner, self.mname)(*args)


def call_proxy(actor, mname):
    if isinstance(actor, torch.nn.Module):
        return NNCallProxy(actor, mname)
    return EMCallProxy(actor, mname)


# ------------------------------------------------------------ nn.Module kinds
class NNBase(Maths, torch.nn.Module):
    pass


class NNPlain(NNBase):
    def __init__(self, W, b):
        super().__init__()
        self.W = torch.nn.Parameter(W.detach().clone(), requires_grad=W.requires_grad)
        self.b = torch.nn.Parameter(b.detach().clone(), requires_grad=b.requires_grad)
        self.k = torch.ones(1, dtype=DT)   # stray plain tensor attribute

    def _W(self):
        return self.W

    def _b(self):
        return self.b


class _Sub(torch.nn.Module):
    def __init__(self, W):
        super().__init__()
        self.W = torch.nn.Parameter(W.detach().clone(), requires_grad=W.requires_grad)


class NNNested(NNBase):
    def __init__(self, W, b):
        super().__init__()
        self.b = torch.nn.Parameter(b.detach().clone(), requires_grad=b.requires_grad)
        self.sub = _Sub(W)

    def _W(self):
        return self.sub.W

    def _b(self):
        return self.b


class NNBuffer(NNBase):
    def __init__(self, W, b):
        super().__init__()
        self.W = torch.nn.Parameter(W.detach().clone(), requires_grad=W.requires_grad)
        self.register_buffer("c", torch.ones_like(b))
        self.b = torch.nn.Parameter(b.detach().clone(), requires_grad=b.requires_grad)

    def _W(self):
        return self.W

    def _b(self):
        return self.b * self.c


class NNShared(NNBase):
    # one Parameter registered under two names
    def __init__(self, W, b):
        super().__init__()
        self.b = torch.nn.Parameter(b.detach().clone(), requires_grad=b.requires_grad)
        self.W = torch.nn.Parameter(W.detach().clone(), requires_grad=W.requires_grad)
        self.b2 = self.b

    def _W(self):
        return self.W

    def _b(self):
        return 0.5 * (self.b + self.b2)


class NNSharedFirst(NNBase):
    # one Parameter registered under two names, both before another Parameter
    def __init__(self, W, b):
        super().__init__()
        self.b = torch.nn.Parameter(b.detach().clone(), requires_grad=b.requires_grad)
        self.b2 = self.b
        self.W = torch.nn.Parameter(W.detach().clone(), requires_grad=W.requires_grad)

    def _W(self):
        return self.W

    def _b(self):
        return 0.5 * (self.b + self.b2)


NN_KINDS = [NNPlain, NNNested, NNBuffer, NNShared, NNSharedFirst]
ALL_KINDS = EM_KINDS + NN_KINDS


# ----------------------------------------------------- user LinearOperators
def spd_matrix(W, b):
    n = W.shape[-1]
    return 0.3 * (W @ W.transpose(-2, -1)) + torch.diag_embed(1.0 + b * b) + \
        0.05 * torch.arange(n, dtype=W.dtype).diag()


class LOPlain(LinearOperator):
    """user operator, symmetric positive definite, all tensors as attributes"""
    PNAMES = ["W", "b"]

    def __init__(self, W, b, hermitian=True):
        n = W.shape[-1]
        super().__init__(shape=(n, n), is_hermitian=hermitian, dtype=W.dtype, device=W.device)
        self._store(W, b)

    def _store(self, W, b):
        self.W = W
        self.b = b

    def _W(self):
        return self.W

    def _b(self):
        return self.b

    def _mv(self, x):
        SIM.enter("_mv", self)
        return (spd_matrix(self._W(), self._b()) @ x.unsqueeze(-1)).squeeze(-1)

    def _getparamnames(self, prefix=""):
        return [prefix + nm for nm in self.PNAMES]


class LOWithRmv(LOPlain):
    def _rmv(self, x):
        SIM.enter("_rmv", self)
        return (spd_matrix(self._W(), self._b()).transpose(-2, -1) @ x.unsqueeze(-1)).squeeze(-1)


class LOFull(LOPlain):
    def _mm(self, x):
        SIM.enter("_mm", self)
        return spd_matrix(self._W(), self._b()) @ x

    def _fullmatrix(self):
        SIM.enter("_fullmatrix", self)
        return spd_matrix(self._W(), self._b())


class LOList(LOPlain):
    PNAMES = ["ps[0]", "ps[1]"]

    def _store(self, W, b):
        self.ps = [W, b]

    def _W(self):
        return self.ps[0]

    def _b(self):
        return self.ps[1]


class LOAlias(LOPlain):
    PNAMES = ["W", "b", "b2"]

    def _store(self, W, b):
        self.W = W
        self.b = b
        self.b2 = b

    def _b(self):
        return 0.5 * (self.b + self.b2)


class LODerived(LOPlain):
    def _store(self, W, b):
        self.W = W * 1.0
        self.b = b + 0.0


def LODense(W, b, hermitian=True):
    """a dense matrix of the caller wrapped with LinearOperator.m: the operator holds the caller's tensor itself"""
    mat = spd_matrix(W, b).detach().clone()
    if W.requires_grad and b.requires_grad:
        mat.requires_grad_()
    return LinearOperator.m(mat, is_hermitian=True)


LO_KINDS = [LOPlain, LOWithRmv, LOFull, LOList, LOAlias, LODerived, LODense]


def make_values(seed: int, n: int):
    g = torch.Generator()
    g.manual_seed(seed)
    return {"W": 0.4 * torch.randn(n, n, generator=g, dtype=DT),
            "b": 0.5 * torch.randn(n, generator=g, dtype=DT) + 1.0,
            "y0": 0.3 * torch.randn(n, generator=g, dtype=DT),
            "W2": 0.4 * torch.randn(n, n, generator=g, dtype=DT),
            "b2": 0.5 * torch.randn(n, generator=g, dtype=DT) + 1.0,
            "B": torch.randn(n, 2, generator=g, dtype=DT)}


def build_actor(kind, vals, rg_W=True, rg_b=True, second=False):
    W = vals["W2" if second else "W"].clone().requires_grad_(rg_W)
    b = vals["b2" if second else "b"].clone().requires_grad_(rg_b)
    return kind(W, b)
