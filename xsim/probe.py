"""Probes, fault plans and the event log of one simulated run.

Every callee the harness owns (the user's function, log p, a custom step, an
operator product, a custom method) calls ``SIM.enter(name, ...)`` on entry.
The simulator numbers the event with a global sequence number, appends it to
the event log, and raises the planned fault if this is the planned point.
"""
from __future__ import annotations

import hashlib
from typing import Any, Callable, Dict, List, Optional, Tuple


class InjectedFault(Exception):
    """what a bug inside the user's function looks like"""


class InjectedAbort(BaseException):
    """what Ctrl-C inside the user's function looks like (not an Exception)"""


# "runtime" / "value" / "fpe": what a domain check inside the user's function raises (the classes a library might be
# tempted to absorb); used by checks that ask "does the call survive the failure, and if so is it still right"
FAULT_CLASSES = {"raise": InjectedFault, "abort": InjectedAbort, "runtime": RuntimeError, "value": ValueError,
                 "fpe": FloatingPointError}


class Sim:
    def __init__(self):
        self.reset()

    def reset(self):
        self.seq = 0
        self.plan: Dict[int, str] = {}     # event seq -> fault kind
        self.fired: List[Tuple[int, str, str]] = []  # (seq, kind, probe name)
        self.log: List[tuple] = []
        self.observers: List[Callable[[int, str, Any], Any]] = []
        self.enabled = True
        self.phase = "fwd"
        self.counters: Dict[str, int] = {}

    def count(self, key: str, n: int = 1):
        self.counters[key] = self.counters.get(key, 0) + n

    def set_plan(self, plan: Dict[int, str]):
        self.plan = dict(plan)

    def enter(self, name: str, owner: Any = None):
        """called by every harness-owned callee on entry"""
        if not self.enabled:
            return
        self.seq += 1
        seq = self.seq
        extra = []
        for obs in self.observers:
            r = obs(seq, name, owner)
            if r is not None:
                extra.append(r)
        self.log.append(("ev", seq, name, self.phase, tuple(extra)))
        kind = self.plan.get(seq)
        if kind is not None:
            self.fired.append((seq, kind, name))
            self.log.append(("fault", seq, kind, name))
            raise FAULT_CLASSES[kind]("injected %s at event %d in %s" % (kind, seq, name))

    def note(self, *items):
        """append a discrete record to the event log (never draws, no clock)"""
        self.log.append(("note",) + tuple(items))

    def digest(self) -> str:
        h = hashlib.sha256()
        for rec in self.log:
            h.update(repr(rec).encode())
            h.update(b"\n")
        return h.hexdigest()


SIM = Sim()


LAPACK_TARGETS = ("solve", "cholesky", "eigh", "qr", "inverse")


class FaultyLinalgSolve(object):
    """a usually-successful internal call fails once: the k-th call of a dense LAPACK entry point (torch.linalg.solve /
    cholesky / eigh / qr, torch.inverse - one shared counter) raises what LAPACK raises for a singular or
    non-positive-definite matrix; later calls go through.  Installed by a check for the duration of one call or one
    execution (``with FaultyLinalgSolve(k): ...``)."""

    def __init__(self, k, targets=LAPACK_TARGETS):
        import torch
        self.k = k
        self.n = 0
        self.fired = 0
        self.fired_in = None
        self.targets = tuple(targets)
        self.origs = {}
        for t in self.targets:
            self.origs[t] = torch.inverse if t == "inverse" else getattr(torch.linalg, t)
        self.orig = self.origs.get("solve", torch.linalg.solve)

    def __call__(self, *a, **kw):
        import torch
        target = kw.pop("_xsim_target", "solve")
        self.n += 1
        if self.n == self.k:
            self.fired += 1
            self.fired_in = target
            raise torch._C._LinAlgError("injected: linalg.%s: The factorization could not be completed because the "
                                        "input is singular / not positive-definite." % target)
        return self.origs[target](*a, **kw)

    def _wrapper(self, target):
        def call(*a, **kw):
            kw["_xsim_target"] = target
            return self(*a, **kw)
        return call

    def __enter__(self):
        import torch
        for t in self.targets:
            if t == "inverse":
                torch.inverse = self._wrapper(t)
            else:
                setattr(torch.linalg, t, self._wrapper(t))
        return self

    def __exit__(self, *a):
        import torch
        for t in self.targets:
            if t == "inverse":
                torch.inverse = self.origs[t]
            else:
                setattr(torch.linalg, t, self.origs[t])
