"""Probes, fault plans and the event log of one simulated run.

Every callee the harness owns (the user's function, log p, a custom step, an
operator product, a custom method) calls ``SIM.enter(name, ...)`` on entry.
The simulator numbers the event with a global sequence number, appends it to
the event log, and raises the planned fault if this is the planned point.
"""
from __future__ import annotations

import hashlib
from typing import Any, Callable, Dict, List, Optional, Tuple


class InjectedFault(Exception):
    """what a bug inside the user's function looks like"""


class InjectedAbort(BaseException):
    """what Ctrl-C inside the user's function looks like (not an Exception)"""


FAULT_CLASSES = {"raise": InjectedFault, "abort": InjectedAbort}


class Sim:
    def __init__(self):
        self.reset()

    def reset(self):
        self.seq = 0
        self.plan: Dict[int, str] = {}     # event seq -> fault kind
        self.fired: List[Tuple[int, str, str]] = []  # (seq, kind, probe name)
        self.log: List[tuple] = []
        self.observers: List[Callable[[int, str, Any], Any]] = []
        self.enabled = True
        self.phase = "fwd"
        self.counters: Dict[str, int] = {}

    def count(self, key: str, n: int = 1):
        self.counters[key] = self.counters.get(key, 0) + n

    def set_plan(self, plan: Dict[int, str]):
        self.plan = dict(plan)

    def enter(self, name: str, owner: Any = None):
        """called by every harness-owned callee on entry"""
        if not self.enabled:
            return
        self.seq += 1
        seq = self.seq
        extra = []
        for obs in self.observers:
            r = obs(seq, name, owner)
            if r is not None:
                extra.append(r)
        self.log.append(("ev", seq, name, self.phase, tuple(extra)))
        kind = self.plan.get(seq)
        if kind is not None:
            self.fired.append((seq, kind, name))
            self.log.append(("fault", seq, kind, name))
            raise FAULT_CLASSES[kind]("injected %s at event %d in %s" % (kind, seq, name))

    def note(self, *items):
        """append a discrete record to the event log (never draws, no clock)"""
        self.log.append(("note",) + tuple(items))

    def digest(self) -> str:
        h = hashlib.sha256()
        for rec in self.log:
            h.update(repr(rec).encode())
            h.update(b"\n")
        return h.hexdigest()


SIM = Sim()


class FaultyLinalgSolve(object):
    """a usually-successful internal call fails once: the k-th torch.linalg.solve raises what LAPACK raises for a
    singular system; later calls go through.  Installed by a check for the duration of one call."""

    def __init__(self, k):
        import torch
        self.k = k
        self.n = 0
        self.fired = 0
        self.orig = torch.linalg.solve

    def __call__(self, *a, **kw):
        import torch
        self.n += 1
        if self.n == self.k:
            self.fired += 1
            raise torch._C._LinAlgError("injected: linalg.solve: The solver failed because the input matrix is singular.")
        return self.orig(*a, **kw)

    def __enter__(self):
        import torch
        torch.linalg.solve = self
        return self

    def __exit__(self, *a):
        import torch
        torch.linalg.solve = self.orig
