"""One integer decides everything: the choice source.

Every decision of a simulated run (actors, sizes, tensor values, order of
operations, where faults land, which exception class, RNG seed handed to torch)
is a *draw* from a ChoiceSource.  Each draw is recorded as a small non-negative
integer where 0 is always the simplest alternative, so that

  * a run is a pure function of (code under /repo, list of draws),
  * the list of draws *is* the replay file, and
  * minimisation is plain list shrinking (truncate, delete, zero, halve).

Logging never draws and never reads a clock.
"""
from __future__ import annotations

import random
from typing import List, Optional, Sequence


class ChoiceSource:
    def __init__(self, seed: Optional[int] = None, replay: Optional[Sequence[int]] = None):
        self.seed = seed
        self._replay = list(replay) if replay is not None else None
        self._rng = random.Random(seed) if replay is None else None
        self._pos = 0
        self.choices: List[int] = []
        self.labels: List[str] = []

    # ---- the only primitive ----
    def draw(self, n: int, label: str = "") -> int:
        """integer in [0, n) ; 0 is the simplest alternative"""
        if n <= 1:
            # no freedom: do not consume a draw (keeps lists short and stable)
            return 0
        if self._replay is not None:
            if self._pos < len(self._replay):
                v = int(self._replay[self._pos])
            else:
                v = 0
            self._pos += 1
            if v < 0:
                v = 0
            if v >= n:
                v = n - 1
        else:
            v = self._rng.randrange(n)
        self.choices.append(v)
        self.labels.append(label)
        return v

    # ---- conveniences, all built on draw ----
    def randint(self, lo: int, hi: int, label: str = "") -> int:
        """integer in [lo, hi] (inclusive); lo is simplest"""
        return lo + self.draw(hi - lo + 1, label)

    def choice(self, seq: Sequence, label: str = ""):
        return seq[self.draw(len(seq), label)]

    def bool(self, label: str = "", num: int = 1, den: int = 2) -> bool:
        """True with probability num/den; False is simplest.

        Encoded as one draw in [0, den): values >= den-num mean True, so that
        zeroing the draw gives False."""
        v = self.draw(den, label)
        return v >= den - num

    def weighted(self, weights: Sequence[int], label: str = "") -> int:
        """index i with probability weights[i]/sum; recorded as the index itself
        (so shrinking moves towards index 0).  In generation mode one draw from
        the total weight decides, then the *index* is what is recorded."""
        n = len(weights)
        if n <= 1:
            return 0
        if self._replay is not None:
            return self.draw(n, label)
        tot = sum(weights)
        u = self._rng.randrange(tot)
        acc = 0
        idx = n - 1
        for i, w in enumerate(weights):
            acc += w
            if u < acc:
                idx = i
                break
        self.choices.append(idx)
        self.labels.append(label)
        return idx

    def subset(self, seq: Sequence, label: str = "", num: int = 1, den: int = 2) -> list:
        return [x for x in seq if self.bool(label, num, den)]

    def seed32(self, label: str = "") -> int:
        return self.draw(2 ** 31 - 1, label)

    def fork_seed(self) -> int:
        return self.seed32("forkseed")


def run_seed(master: int, i: int) -> int:
    return master * 1_000_003 + i


# ---------------------------------------------------------------- shrinking
def shrink(choices: Sequence[int], still_fails, budget: int = 300):
    """Minimise a list of draws.

    still_fails(list) -> bool : True iff the *same violation class* persists.
    Returns (minimised list, number of re-executions).
    Plain delta-debugging on the draw list: truncate the tail, delete blocks,
    zero blocks, then lower single entries.  Because 0 is the simplest value
    for every draw, this shrinks operation counts, sizes, nesting depth and
    fault counts together.
    """
    best = list(choices)
    used = 0

    def attempt(cand) -> bool:
        nonlocal best, used
        if used >= budget:
            return False
        if cand == best:
            return False
        used += 1
        if still_fails(cand):
            best = list(cand)
            return True
        return False

    # strip trailing zeros: replay pads with zeros anyway
    def strip(c):
        c = list(c)
        while c and c[-1] == 0:
            c.pop()
        return c

    best = strip(best)
    improved = True
    while improved and used < budget:
        improved = False
        # 1. truncate tail (binary)
        n = len(best)
        k = n // 2
        while k >= 1 and used < budget:
            if len(best) > k and attempt(strip(best[:len(best) - k])):
                improved = True
            else:
                k //= 2
        # 2. delete blocks
        for size in (8, 4, 2, 1):
            i = 0
            while i + size <= len(best) and used < budget:
                cand = best[:i] + best[i + size:]
                if attempt(strip(cand)):
                    improved = True
                else:
                    i += 1
        # 3. zero blocks
        for size in (8, 4, 2, 1):
            i = 0
            while i + size <= len(best) and used < budget:
                if any(best[i:i + size]):
                    cand = best[:i] + [0] * size + best[i + size:]
                    if attempt(strip(cand)):
                        improved = True
                i += size
        # 4. lower single entries
        for i in range(len(best)):
            if used >= budget:
                break
            while i < len(best) and best[i] > 0 and used < budget:
                v = best[i]
                cand = list(best)
                cand[i] = v // 2
                if attempt(strip(cand)):
                    improved = True
                    continue
                cand = list(best)
                cand[i] = v - 1
                if v - 1 != v // 2 and attempt(strip(cand)):
                    improved = True
                    continue
                break
    return best, used
