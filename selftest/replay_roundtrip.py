#!/venv/bin/python
"""Replay round trip: for one property-breaking mutant per check, (1) the quick tier (reduced number of
runs) finds a violation, minimises it and writes a replay file; (2) replaying that file in a fresh process
against the mutated copy reproduces the same violation class (exit 1); (3) replaying it against the
unchanged /repo reports REPLAY-CLEAN (exit 0).  Scratch copies live outside /repo and /verif and are
removed straight afterwards.  Results: selftest/replay_last.json
"""
import json
import os
import re
import shutil
import subprocess
import sys
import tempfile
import time

HERE = os.path.dirname(os.path.abspath(__file__))
VERIF = os.path.dirname(HERE)
sys.path.insert(0, HERE)
from mutants import MUTANTS, apply_mutant  # noqa

PICK = {"C10": ("c10_no_finally", 96), "C11": ("c11_cache_revert", 400), "C16": ("c16_mhcustom_restart_x0", 300),
        "C17": ("c17_objparams_alias_revert", 200), "C19": ("c19_ivp_ctx_yt", 96), "C20": ("c20_pop_end", 2000)}


def main():
    props = sys.argv[1:] or sorted(PICK)
    out = []
    bad = 0
    for prop in props:
        mid, runs = PICK[prop]
        m = [x for x in MUTANTS if x[0] == mid][0]
        tmp = tempfile.mkdtemp(prefix="xsim_rr_")
        try:
            dst = os.path.join(tmp, "repo")
            shutil.copytree("/repo", dst, ignore=shutil.ignore_patterns(".git", "__pycache__", "doc", "benchmarks", "examples"))
            apply_mutant(dst, m[2], m[3], m[4])
            env = dict(os.environ)
            env["XSIM_REPO"] = dst
            env.pop("XSIM_PINNED", None)
            t0 = time.time()
            r = subprocess.run([os.path.join(VERIF, "check"), prop, "quick", "--runs", str(runs), "--no-evidence"],
                               env=env, capture_output=True, text=True, timeout=3600)
            paths = re.findall(r"^VIOLATION property=%s replay=(\S+)" % prop, r.stdout, re.M)
            rec = {"property": prop, "mutant": mid, "find_exit": r.returncode, "replays": len(paths)}
            shr = re.findall(r"choices (\d+)->(\d+)", r.stdout)
            rec["shrunk"] = ["%s->%s" % x for x in shr[:3]]
            if r.returncode != 1 or not paths:
                rec["ok"] = False
                print(prop, "no violation found", r.stdout[-500:])
            else:
                p = paths[0]
                r1 = subprocess.run([os.path.join(VERIF, "check"), prop, "--replay", p], env=env,
                                    capture_output=True, text=True, timeout=1800)
                rec["replay_on_mutant_exit"] = r1.returncode
                rec["replay_on_mutant_reproduced"] = "reproduced:" in r1.stdout
                env2 = dict(os.environ)
                env2.pop("XSIM_REPO", None)
                env2.pop("XSIM_PINNED", None)
                r2 = subprocess.run([os.path.join(VERIF, "check"), prop, "--replay", p], env=env2,
                                    capture_output=True, text=True, timeout=1800)
                rec["replay_on_clean_exit"] = r2.returncode
                rec["replay_on_clean_says_clean"] = "REPLAY-CLEAN" in r2.stdout
                rec["ok"] = (r1.returncode == 1 and rec["replay_on_mutant_reproduced"] and r2.returncode == 0
                             and rec["replay_on_clean_says_clean"])
                for q in paths:
                    try:
                        os.remove(q)
                    except OSError:
                        pass
            rec["wall_s"] = round(time.time() - t0, 1)
            out.append(rec)
            print(json.dumps(rec), flush=True)
            if not rec["ok"]:
                bad += 1
        finally:
            shutil.rmtree(tmp, ignore_errors=True)
    p = os.path.join(HERE, "replay_last.json")
    prev = []
    if os.path.exists(p):
        try:
            prev = json.load(open(p))
        except Exception:
            prev = []
    done = set(r["property"] for r in out)
    merged = sorted([r for r in prev if r["property"] not in done] + out, key=lambda r: r["property"])
    json.dump(merged, open(p, "w"), indent=1)
    print("REPLAY ROUND TRIP %s" % ("OK" if not bad else "BROKEN (%d)" % bad))
    return 1 if bad else 0


if __name__ == "__main__":
    sys.exit(main())
