#!/venv/bin/python
"""Evaluate seeded (independently written) property-breaking changes.

usage:
  selftest/seeded.py verify <dir> [--no-tests]   confirm a candidate: demo passes on a clean scratch worktree, fails
                                                 with the patch, and the repository suite's failing set is unchanged
  selftest/seeded.py detect [ID ...]             run the quick check of the broken property against every kept change
                                                 in /verif/seeded/<ID>/ (scratch worktree outside /repo and /verif,
                                                 removed straight afterwards); writes selftest/seeded_last.json

A kept change lives in /verif/seeded/<ID>/ {patch.diff, demo.py, meta.json}.
"""
import argparse
import json
import os
import re
import shutil
import subprocess
import sys
import tempfile
import time

HERE = os.path.dirname(os.path.abspath(__file__))
VERIF = os.path.dirname(HERE)
SEEDED = os.path.join(VERIF, "seeded")
PY = "/venv/bin/python"


def sh(cmd, **kw):
    return subprocess.run(cmd, capture_output=True, text=True, **kw)


class Worktree(object):
    def __enter__(self):
        self.dir = tempfile.mkdtemp(prefix="xsim_seed_")
        os.rmdir(self.dir)
        r = sh(["git", "-C", "/repo", "worktree", "add", "--detach", "-q", self.dir, "HEAD"])
        if r.returncode != 0:
            raise RuntimeError(r.stderr)
        return self.dir

    def __exit__(self, *a):
        sh(["git", "-C", "/repo", "worktree", "remove", "--force", self.dir])
        shutil.rmtree(self.dir, ignore_errors=True)


def run_demo(wt, demo):
    env = dict(os.environ)
    env["PYTHONPATH"] = wt
    env["OMP_NUM_THREADS"] = "2"
    r = sh([PY, demo], cwd=wt, env=env, timeout=900)
    return r.returncode, (r.stdout + r.stderr)[-600:]


def run_tests(wt):
    env = dict(os.environ)
    env["OMP_NUM_THREADS"] = "2"
    junit = os.path.join(wt, "junit_seed.xml")
    r = sh([PY, "-m", "pytest", "-q", "-p", "no:cacheprovider", "--timeout=900", "-n", "8", "--junitxml=" + junit,
            "xitorch/_tests"], cwd=wt, env=env, timeout=3600)
    failed = set()
    import xml.etree.ElementTree as ET
    try:
        for tc in ET.parse(junit).getroot().iter("testcase"):
            if tc.find("failure") is not None or tc.find("error") is not None:
                failed.add("%s::%s" % (tc.get("classname"), tc.get("name")))
    except Exception as e:
        return None, "cannot parse junit: %s\n%s" % (e, r.stdout[-500:])
    tail = r.stdout.strip().splitlines()[-1] if r.stdout.strip() else ""
    return failed, tail


def baseline_failed():
    p = os.path.join(SEEDED, "baseline_failed.json")
    if os.path.exists(p):
        return set(json.load(open(p)))
    with Worktree() as wt:
        failed, tail = run_tests(wt)
    os.makedirs(SEEDED, exist_ok=True)
    json.dump(sorted(failed), open(p, "w"), indent=1)
    print("baseline: %s" % tail)
    return failed


LOAD_SENSITIVE = {"xitorch._tests.test_integrate_speed::test_ivp_speed"}


def verify(d, no_tests=False):
    d = os.path.abspath(d)
    patch = os.path.join(d, "patch.diff")
    demo = os.path.join(d, "demo.py")
    out = {}
    with Worktree() as wt:
        rc, tail = run_demo(wt, demo)
        out["demo_clean_exit"] = rc
        r = sh(["git", "-C", wt, "apply", "--whitespace=nowarn", patch])
        if r.returncode != 0:
            out["apply_error"] = r.stderr[-400:]
            return out
        rc, tail = run_demo(wt, demo)
        out["demo_patched_exit"] = rc
        out["demo_patched_tail"] = tail[-300:]
        if not no_tests:
            base = baseline_failed()
            failed, tail = run_tests(wt)
            out["tests_tail"] = tail
            if failed is None:
                out["tests_ok"] = False
            else:
                diff = (failed ^ base) - LOAD_SENSITIVE
                out["tests_new_failures"] = sorted(failed - base - LOAD_SENSITIVE)
                out["tests_ok"] = not (failed - base - LOAD_SENSITIVE)
                out["tests_failing_set_changed"] = sorted(diff)
    out["confirmed"] = out.get("demo_clean_exit") == 0 and out.get("demo_patched_exit") not in (0, None) and \
        (no_tests or out.get("tests_ok", False))
    return out


def detect(ids, tier="quick", runs=None):
    results = []
    for sid in ids:
        d = os.path.join(SEEDED, sid)
        meta = json.load(open(os.path.join(d, "meta.json")))
        if meta.get("superseded"):
            print("%-8s superseded by a later repair of /repo (kept for the record)" % sid)
            continue
        props = meta.get("checked_by") or [meta["property"]]
        with Worktree() as wt:
            r = sh(["git", "-C", wt, "apply", "--whitespace=nowarn", os.path.join(d, "patch.diff")])
            if r.returncode != 0:
                print("%s: patch does not apply: %s" % (sid, r.stderr[-300:]))
                results.append({"id": sid, "error": "patch does not apply"})
                continue
            for prop in props:
                cmd = [os.path.join(VERIF, "check"), prop, tier, "--no-evidence", "--no-minimise"]
                if runs:
                    cmd += ["--runs", str(runs)]
                env = dict(os.environ)
                env["XSIM_REPO"] = wt
                env.pop("XSIM_PINNED", None)
                t0 = time.time()
                rr = sh(cmd, env=env, timeout=7200)
                first = ""
                for l in rr.stdout.splitlines():
                    if l.strip().startswith("sig=") or l.strip().startswith("batch-level"):
                        first = l.strip()[:260]
                        break
                nclasses = len([l for l in rr.stdout.splitlines() if l.startswith("VIOLATION")])
                res = {"id": sid, "property": meta["property"], "check": prop, "tier": tier, "exit": rr.returncode,
                       "detected": rr.returncode == 1, "violation_classes": nclasses, "first": first,
                       "wall_s": round(time.time() - t0, 1)}
                results.append(res)
                print("%-8s check=%s %s exit=%d classes=%d %.0fs %s" %
                      (sid, prop, "DETECTED" if res["detected"] else "MISSED  ", rr.returncode, nclasses,
                       time.time() - t0, first), flush=True)
                if rr.returncode == 2:
                    print(rr.stdout[-1500:])
    out = os.path.join(HERE, "seeded_last.json")
    prev = []
    if os.path.exists(out):
        try:
            prev = json.load(open(out))
        except Exception:
            prev = []
    keys = set((r["id"], r.get("check"), r.get("tier")) for r in results)
    merged = [r for r in prev if (r["id"], r.get("check"), r.get("tier")) not in keys] + results
    merged.sort(key=lambda r: (r["id"], str(r.get("check"))))
    json.dump(merged, open(out, "w"), indent=1)
    return results


def main():
    ap = argparse.ArgumentParser()
    ap.add_argument("cmd", choices=["verify", "detect", "baseline"])
    ap.add_argument("args", nargs="*")
    ap.add_argument("--no-tests", action="store_true")
    ap.add_argument("--tier", default="quick")
    ap.add_argument("--runs", type=int, default=None)
    a = ap.parse_args()
    if a.cmd == "baseline":
        print(len(baseline_failed()), "baseline failures")
        return 0
    if a.cmd == "verify":
        rc = 0
        for d in a.args:
            out = verify(d, a.no_tests)
            print(d, json.dumps(out, indent=1))
            if not out.get("confirmed"):
                rc = 1
        return rc
    ids = a.args or sorted(x for x in os.listdir(SEEDED) if os.path.isdir(os.path.join(SEEDED, x)))
    res = detect(ids, a.tier, a.runs)
    return 0 if all(r.get("detected") for r in res) else 1


if __name__ == "__main__":
    sys.exit(main())
