#!/venv/bin/python
"""Determinism self-test: one seed = one exactly repeatable execution.

For every check, the first N runs of VERIF_SEED (default 1) are executed
 (a) with 16 workers, PYTHONHASHSEED=0        (the configuration the checks use)
 (b) again, same configuration                (fresh interpreter)
 (c) with 3 workers                           (different scheduling of children)
 (d) with 16 workers, PYTHONHASHSEED=12345    (different hash order)
and the per-run digests (sha256 over the recorded event log: probe names, phases,
recorded points/values, fault plan, verdicts) are diffed.  Exit 0 iff all four
digest files are identical for every check.

usage: selftest/determinism.py [C10 C11 ...] [--scale 1.0]
"""
import argparse
import json
import os
import subprocess
import sys
import tempfile
import time

HERE = os.path.dirname(os.path.abspath(__file__))
VERIF = os.path.dirname(HERE)
RUNS = {"C10": 96, "C11": 400, "C16": 400, "C17": 240, "C19": 64, "C20": 4000}


def run(prop, n, workers, hashseed, out, seed):
    env = dict(os.environ)
    env.pop("XSIM_PINNED", None)
    env["VERIF_SEED"] = str(seed)
    if hashseed is not None:
        env["XSIM_HASHSEED"] = str(hashseed)
    else:
        env.pop("XSIM_HASHSEED", None)
    cmd = [os.path.join(VERIF, "check"), prop, "quick", "--runs", str(n), "--workers", str(workers),
           "--digests", out, "--no-evidence", "--no-minimise"]
    r = subprocess.run(cmd, env=env, capture_output=True, text=True, timeout=7200)
    return r.returncode, r.stdout[-400:]


def main():
    ap = argparse.ArgumentParser()
    ap.add_argument("props", nargs="*")
    ap.add_argument("--scale", type=float, default=1.0)
    ap.add_argument("--seed", type=int, default=int(os.environ.get("VERIF_SEED", "1")))
    a = ap.parse_args()
    props = a.props or sorted(RUNS)
    bad = 0
    report = []
    for p in props:
        n = max(8, int(RUNS[p] * a.scale))
        tmp = tempfile.mkdtemp(prefix="xsim_det_")
        t0 = time.time()
        files = []
        for tag, workers, hs in (("a", 16, None), ("b", 16, None), ("c", 3, None), ("d", 16, 12345)):
            out = os.path.join(tmp, "%s_%s.txt" % (p, tag))
            rc, tail = run(p, n, workers, hs, out, a.seed)
            if rc == 2 or not os.path.exists(out):
                print("%s %s: harness error (exit %d)\n%s" % (p, tag, rc, tail))
                bad += 1
                continue
            files.append((tag, open(out).read().splitlines()))
        ref = files[0][1] if files else []
        ndiff = {}
        for tag, lines in files[1:]:
            d = sum(1 for x, y in zip(ref, lines) if x != y) + abs(len(ref) - len(lines))
            ndiff[tag] = d
            if d:
                bad += 1
                first = [(x, y) for x, y in zip(ref, lines) if x != y][:2]
                print("%s: %d of %d run digests differ between (a) and (%s): %s" % (p, d, len(ref), tag, first))
        nerr = sum(1 for l in ref if l.endswith("ERR"))
        if nerr:
            bad += 1
        report.append({"property": p, "runs": n, "configs": [t for t, _ in files], "differing_digests": ndiff,
                       "err_digests": nerr, "wall_s": round(time.time() - t0, 1)})
        print("%s: %d runs x %d configurations, differing digests %s, wall %.0fs" %
              (p, n, len(files), ndiff, time.time() - t0), flush=True)
        for f in os.listdir(tmp):
            os.remove(os.path.join(tmp, f))
        os.rmdir(tmp)
    with open(os.path.join(HERE, "determinism_last.json"), "w") as f:
        json.dump(report, f, indent=1)
    print("DETERMINISM %s" % ("OK" if not bad else "BROKEN (%d)" % bad))
    return 0 if not bad else 1


if __name__ == "__main__":
    sys.exit(main())
