#!/venv/bin/python
"""Sensitivity self-test: apply one small property-breaking edit at a time to a
scratch copy of /repo (outside /repo and /verif, removed immediately after) and
require the quick tier of the corresponding check to exit 1.  Also runs
semantics-preserving rewrites ("nofa" entries) that must stay at exit 0.

usage: selftest/mutants.py [--only ID[,ID..]] [--prop C10] [--runs N]
"""
import argparse
import json
import os
import shutil
import subprocess
import sys
import tempfile
import time

HERE = os.path.dirname(os.path.abspath(__file__))
VERIF = os.path.dirname(HERE)

# (id, property, file, old, new, expect)   expect: 1 = must be detected, 0 = must stay silent
# old/new are given with \n line ends; they are converted to the file's own line ends.
MUTANTS = [
    # ---------------- C10
    ("c10_no_finally", "C10", "xitorch/_core/pure_function.py",
     "        try:\n            self.set_objparams(objparams)\n            yield\n        finally:\n            self.restore_objparams()\n",
     "        self.set_objparams(objparams)\n        yield\n        self.restore_objparams()\n", 1),
    ("c10_pop0", "C10", "xitorch/_core/pure_function.py",
     "self._restore_stack.pop(-1)", "self._restore_stack.pop(0)", 1),
    ("c10_linop_restore_params", "C10", "xitorch/_core/linop.py",
     "            self.setparams(methodname, *_orig_params_)\n",
     "            self.setuniqueparams(methodname, *params)\n", 1),
    ("c10_linop_no_finally", "C10", "xitorch/_core/linop.py",
     "            _orig_params_ = self.getparams(methodname)\n            self.setuniqueparams(methodname, *params)\n            yield self\n        finally:\n            self.setparams(methodname, *_orig_params_)\n",
     "            _orig_params_ = self.getparams(methodname)\n            self.setuniqueparams(methodname, *params)\n            yield self\n        except ZeroDivisionError:\n            pass\n        if True:\n            self.setparams(methodname, *_orig_params_)\n", 1),
    ("c10_debug_no_restore", "C10", "xitorch/debug/modes.py",
     "        set_debug_mode(True)\n        yield\n    except Exception as e:\n        raise e\n    finally:\n        set_debug_mode(dbg_mode)\n",
     "        set_debug_mode(True)\n        yield\n        set_debug_mode(dbg_mode)\n    except Exception as e:\n        raise e\n", 1),
    ("c10_assertparams_no_finally", "C10", "xitorch/_core/editable_module.py",
     "        finally:\n            # return the original tensors to exactly the places they were taken\n",
     "        except ZeroDivisionError:\n            pass\n        if True:\n            # return the original tensors to exactly the places they were taken\n", 1),
    ("c10_restore_skipped_for_nondiff", "C10", "xitorch/_core/pure_function.py",
     "        old_allobjparams, identical = self._restore_stack.pop(-1)\n        if not identical:\n",
     "        old_allobjparams, identical = self._restore_stack.pop(-1)\n        if not identical and all(p.requires_grad for p in old_allobjparams):\n", 1),
    ("c10_setparams_reversed", "C10", "xitorch/_core/editable_module.py",
     "        for name, val in zip(paramnames, params):\n            try:\n                set_attr(self, name, val)\n",
     "        for name, val in zip(paramnames[::-1], params):\n            try:\n                set_attr(self, name, val)\n", 1),
    ("c10_rootfinder_bwd_no_with", "C10", "xitorch/optimize/rootfinder.py",
     "                with ctx.fcn.useobjparams(objparams_copy):\n                    yfcn = fcn(yout, *params_copy)\n",
     "                ctx.fcn.set_objparams(objparams_copy)\n                yfcn = fcn(yout, *params_copy)\n                ctx.fcn.restore_objparams()\n", 1),
    ("c10_attr_order_revert", "C10", "xitorch/_utils/attr.py",
     "    if _is_registered_param(obj, name):\n        obj._parameters[name] = None\n        obj.__dict__.pop(name, None)\n    else:\n        delattr(obj, name)\n",
     "    delattr(obj, name)\n", 0),   # equivalent since 4bbb525: the nn.Module path now deletes and re-registers
     # ALL names in registration order, so losing the slot on delete cannot permute them; the slot-keeping
     # that matters is in _setattr_keep_slot (EditableModule path), mutated by c10_setattr_slot_revert below
    ("c10_setattr_slot_revert", "C10", "xitorch/_utils/attr.py",
     "                if place is obj._parameters:\n                    obj.__dict__.pop(name, None)\n                place[name] = val\n                return\n",
     "                if place is obj._parameters:\n                    del obj._parameters[name]\n                    obj.__dict__[name] = val\n                    return\n                place[name] = val\n                return\n", 1),
    ("c10_param_slot_shadow_revert", "C10", "xitorch/_utils/attr.py",     # behaviour before e0a2728
     "                if place is obj._parameters:\n                    obj.__dict__.pop(name, None)\n                place[name] = val\n                return\n",
     "                if place is obj._parameters and not isinstance(val, torch.nn.Parameter):\n                    obj._parameters[name] = None\n                    obj.__dict__[name] = val\n                    return\n                if place is obj._parameters:\n                    obj.__dict__.pop(name, None)\n                place[name] = val\n                return\n", 1),
    ("c10_class_attr_revert", "C10", "xitorch/_utils/attr.py",   # revert of b99db40
     "    if _resolves_without_entry(obj, name, val):\n", "    if False:\n", 1),
    ("c10_getattr_resolved_revert", "C10", "xitorch/_utils/attr.py",   # revert of 240ac5a
     "    if _resolves_without_entry(obj, name, val):\n", "    if getattr(type(obj), name, None) is val:\n", 1),
    ("c10_place_based_revert", "C10", "xitorch/_core/pure_function.py",   # revert of 958d5a4
     "            set_attr(self.obj, name, param)  # written into the place where the name lives\n",
     "            del_attr(self.obj, name)\n            set_attr(self.obj, name, param)\n", 1),
    ("c10_quad_lock_not_released", "C10", "xitorch/_core/pure_function.py",
     "        finally:\n            self._state_change_allowed = prev_status\n",
     "        except ZeroDivisionError:\n            pass\n        if True:\n            self._state_change_allowed = prev_status\n", 1),
    ("c10_nofa_exitstack", "C10", "xitorch/_core/pure_function.py",
     "        try:\n            self.set_objparams(objparams)\n            yield\n        finally:\n            self.restore_objparams()\n",
     "        import contextlib as _cl\n        with _cl.ExitStack() as _st:\n            _st.callback(self.restore_objparams)\n            self.set_objparams(objparams)\n            yield\n", 0),
    # the same rewrite with the callback registered AFTER the set: not equivalent - when set_objparams raises after
    # it has recorded what to restore (a tensor list of the wrong length is rejected while mapping it onto the
    # names), nothing undoes the record and the restore stack keeps a stale entry
    ("c10_exitstack_late_callback", "C10", "xitorch/_core/pure_function.py",
     "        try:\n            self.set_objparams(objparams)\n            yield\n        finally:\n            self.restore_objparams()\n",
     "        import contextlib as _cl\n        with _cl.ExitStack() as _st:\n            self.set_objparams(objparams)\n            _st.callback(self.restore_objparams)\n            yield\n", 1),
    # ---------------- C19
    ("c19_broyden_lambda", "C19", "xitorch/_impls/optimize/root/_jacobian.py",
     "        # self._reduce = lambda: self.Gm.reduce(self.max_rank)\n",
     "        self._reduce = lambda: self.Gm.reduce(self.max_rank)\n", 1),
    ("c19_ivp_ctx_yt", "C19", "xitorch/integrate/solve_ivp.py",
     "        ctx.pfcn = pfcn\n        ctx.nparams = nparams\n",
     "        ctx.pfcn = pfcn\n        ctx.nparams = nparams\n        ctx.yt_keep = yt\n", 1),
    ("c19_rk_self_capture", "C19", "xitorch/_impls/integrate/ivp/adaptive_rk.py",
     "            self.func = lambda t, y: fcn(t, y.reshape(yshape), *params).reshape(-1)\n",
     "            self.func = lambda t, y: fcn(t, y.reshape(self.yshape), *params).reshape(-1)\n", 1),
    ("c19_rootfinder_ctx_output", "C19", "xitorch/optimize/rootfinder.py",
     "        ctx.fcn = fcn\n\n        # split tensors and non-tensors params\n",
     "        ctx.fcn = fcn\n        ctx.y_keep = y\n\n        # split tensors and non-tensors params\n", 1),
    ("c19_mcquad_module_cache", "C19", "xitorch/integrate/mcquad.py",
     "        epf = _integrate(ffcn, xsamples, wsamples, fparams)\n",
     "        epf = _integrate(ffcn, xsamples, wsamples, fparams)\n        _MCQuad._last = getattr(_MCQuad, '_last', []) + [xsamples]\n", 1),
    ("c19_solve_ctx_cycle", "C19", "xitorch/linalg/solve.py",
     "        ctx.A = A\n", "        ctx.A = A\n        ctx.x_keep = x\n", 1),
    # ---------------- C20
    ("c20_pop_end", "C20", "xitorch/_core/packer.py",
     "        b = tensors.pop(0)\n", "        b = tensors.pop(-1)\n", 1),
    ("c20_inverse_off", "C20", "xitorch/_core/packer.py",
     "            unique_inverse.append(unique_ids[idnum])\n        else:\n",
     "            unique_inverse.append(max(unique_ids[idnum] - 1, 0))\n        else:\n", 1),
    ("c20_no_copy_tensors", "C20", "xitorch/_core/packer.py",
     "                tensors = copy(tensors)\n", "                tensors = tensors\n", 1),
    ("c20_no_memo", "C20", "xitorch/_core/packer.py",
     "            memo = self._get_tensor_memo()\n            new_obj = deepcopy(self._obj, memo)\n",
     "            new_obj = deepcopy(self._obj)\n", 1),
    ("c20_shared_shape_cache", "C20", "xitorch/_core/packer.py",
     "            self._tensor_shapes = [p.shape for p in params_tensors]\n",
     "            self._tensor_shapes = [p.shape for p in params_tensors]\n            self._unique_tensor_shapes = self._tensor_shapes\n", 1),
    ("c20_zero_tensor_revert", "C20", "xitorch/_core/packer.py",
     "            if len(tensor_shapes) == 0:\n                return deepcopy(self._obj, self._get_tensor_memo())\n",
     "            if len(tensor_shapes) == 0:\n                return self._obj\n", 1),
    ("c20_no_shape_check", "C20", "xitorch/_core/packer.py",
     "                if tens.shape != shape:\n", "                if False:\n", 1),
    ("c20_init_no_deepcopy", "C20", "xitorch/_core/packer.py",
     "        self._obj = deepcopy(obj, memo)\n", "        self._obj = obj\n", 1),
    ("c20_numels_with_shapes_revert", "C20", "xitorch/_core/packer.py",      # revert of 350a3d7
     "            self._unique_tensor_numels = [p.numel() for p in params_tensors]\n            self._unique_tensor_numel_tot = sum(self._unique_tensor_numels)\n        else:\n",
     "        else:\n", 1),
    # ---------------- C11
    ("c11_shape_alias_revert", "C11", "xitorch/_core/linop.py",              # revert of cf53caa
     "        self._shape = shape if isinstance(shape, tuple) else tuple(shape)\n", "        self._shape = shape\n", 1),
    ("c11_nondiff_adjoint_zeros_revert", "C11", "xitorch/_core/linop.py",    # revert of 6e165cd
     "            if torch.count_nonzero(yprobe) > 0:\n", "            if False:\n", 1),
    ("c17_cache_under_grad_revert", "C17", "xitorch/grad/jachess.py",        # revert of c674613
     "        if torch.is_grad_enabled():\n            return False\n", "", 1),
    ("c11_cache_revert", "C11", "xitorch/_core/linop.py",
     "        if not cls.__dict__.get(\"_implementation_checked\", False):\n",
     "        if not cls._implementation_checked:\n", 1),
    ("c11_flags_on_base", "C11", "xitorch/_core/linop.py",
     "            cls._is_rmv_implemented = cls.__check_if_implemented(\"_rmv\")\n",
     "            LinearOperator._is_rmv_implemented = cls.__check_if_implemented(\"_rmv\")\n", 1),
    ("c11_add_rmv_forget_mul", "C11", "xitorch/_core/linop.py",
     "        return self.a.rmv(x) + self.mul * self.b.rmv(x)\n",
     "        return self.a.rmv(x) + self.b.rmv(x)\n", 1),
    ("c11_matmul_rmv_order", "C11", "xitorch/_core/linop.py",
     "        return self.b.rmv(self.a.rmv(x))\n", "        return self.a.rmv(self.b.rmv(x))\n", 1),
    ("c11_mul_mv_drop_f", "C11", "xitorch/_core/linop.py",
     "        return self.a._mv(x) * self.f\n", "        return self.a._mv(x)\n", 1),
    ("c11_H_no_conj", "C11", "xitorch/_core/linop.py",
     "            return LinearOperator.m(self.fullmatrix().transpose(-2, -1).conj())\n",
     "            return LinearOperator.m(self.fullmatrix().transpose(-2, -1))\n", 1),
    ("c11_rmm_fallback_uses_mv", "C11", "xitorch/_core/linop.py",
     "            rmv = self._rmv if self._is_rmv_implemented else self.rmv\n",
     "            rmv = self._mv\n", 1),
    ("c11_rmv_no_shape_check", "C11", "xitorch/_core/linop.py",
     "        if x.shape[-1] != self.shape[-2]:\n", "        if False:\n", 1),
    ("c11_m_hermitian_unchecked", "C11", "xitorch/_core/linop.py",
     "        elif is_hermitian:\n            # check the hermitian\n",
     "        elif False:\n            # check the hermitian\n", 1),
    ("c11_adjoint_private_rmv", "C11", "xitorch/_core/linop.py",
     "        return self.obj.rmv(x)\n", "        return self.obj._rmv(x)\n", 1),
    ("c11_matmul_shape_unchecked", "C11", "xitorch/_core/linop.py",
     "        if self.shape[-1] != b.shape[-2]:\n", "        if False:\n", 1),
    ("c11_hermitian_rmm_shortcut_wrong", "C11", "xitorch/_core/linop.py",
     "        if self._is_hermitian:\n            return self.mm(x)\n",
     "        if self.shape[-1] == self.shape[-2]:\n            return self.mm(x)\n", 1),
    # ---------------- C17
    ("c17_cache_always_valid", "C17", "xitorch/grad/jachess.py",
     "            return False\n        return [id(param)",
     "            return False\n        return True or [id(param)", 1),
    ("c17_objparams_alias_revert", "C17", "xitorch/grad/jachess.py",
     "        self.objparams = list(fcn.objparams())\n", "        self.objparams = fcn.objparams()\n", 0),
    # (equivalent since ced3e3e: objparams() builds a new list on every call, so there is nothing left to alias)
    ("c17_cache_ignores_objparams", "C17", "xitorch/grad/jachess.py",
     "               [id(param) for param in self.objparams] == self.id_objparams_tensor\n",
     "               True\n", 1),
    ("c17_mv_no_create_graph", "C17", "xitorch/grad/jachess.py",
     "retain_graph=True, create_graph=torch.is_grad_enabled())  # (*nout)\n",
     "retain_graph=True, create_graph=False)  # (*nout)\n", 1),
    ("c17_rmv_no_create_graph", "C17", "xitorch/grad/jachess.py",
     "retain_graph=True, create_graph=torch.is_grad_enabled())  # (*nin)\n",
     "retain_graph=True, create_graph=False)  # (*nin)\n", 1),
    ("c17_mv_no_update_params", "C17", "xitorch/grad/jachess.py",
     "                params = self.__current_params()\n                yparam = params[self.idx]\n                yout = self.fcn(*params)  # (*nout)\n                v = ",
     "                params = self.params\n                yparam = params[self.idx]\n                yout = self.fcn(*params)  # (*nout)\n                v = ", 1),
    ("c17_rmv_no_useobjparams", "C17", "xitorch/grad/jachess.py",
     "            with torch.enable_grad(), self.fcn.useobjparams(self.objparams):\n                params = self.__current_params()\n                yparam = params[self.idx]\n                yout = self.fcn(*params)  # (*nout)\n\n",
     "            with torch.enable_grad():\n                params = self.__current_params()\n                yparam = params[self.idx]\n                yout = self.fcn(*params)  # (*nout)\n\n", 1),
    ("c17_rmv_reshape_inshape", "C17", "xitorch/grad/jachess.py",
     "grad_outputs=gout1[i].reshape(self.outshape),", "grad_outputs=gout1[i].reshape(self.inshape),", 1),
    ("c17_linop_restore_params", "C17", "xitorch/_core/linop.py",
     "            self.setparams(methodname, *_orig_params_)\n",
     "            self.setuniqueparams(methodname, *params)\n", 1),
    ("c17_nofa_connect_graph_removed", "C17", "xitorch/grad/jachess.py",
     "        res = connect_graph(res, self.objparams)\n        return res\n",
     "        return res\n", 0),
    # ---------------- C16
    ("c16_mhcustom_restart_x0", "C16", "xitorch/_impls/integrate/mcsamples/mcmc.py",
     "    xsamples = _mhcustom_sample(logpfcn, x, pparams, nsamples, custom_step, True)\n",
     "    xsamples = _mhcustom_sample(logpfcn, x0, pparams, nsamples, custom_step, True)\n", 1),
    ("c16_mhcustom_nburnout_samples", "C16", "xitorch/_impls/integrate/mcsamples/mcmc.py",
     "    xsamples = _mhcustom_sample(logpfcn, x, pparams, nsamples, custom_step, True)\n",
     "    xsamples = _mhcustom_sample(logpfcn, x, pparams, max(nburnout, 1), custom_step, True)\n", 1),
    ("c16_mh_swap_counts", "C16", "xitorch/_impls/integrate/mcsamples/mcmc.py",
     "    x, dtype, device = _mh_sample(logpfcn, x0, pparams, nburnout, step_size, False)\n    samples = _mh_sample(logpfcn, x, pparams, nsamples, step_size, True)\n",
     "    x, dtype, device = _mh_sample(logpfcn, x0, pparams, nsamples, step_size, False)\n    samples = _mh_sample(logpfcn, x, pparams, nburnout, step_size, True)\n", 1),
    ("c16_mh_burn_state_dropped", "C16", "xitorch/_impls/integrate/mcsamples/mcmc.py",
     "    samples = _mh_sample(logpfcn, x, pparams, nsamples, step_size, True)\n",
     "    samples = _mh_sample(logpfcn, x0, pparams, nsamples, step_size, True)\n", 1),
    ("c16_mh_accept_wrong_sign", "C16", "xitorch/_impls/integrate/mcsamples/mcmc.py",
     "            accept = log_rand[i] < logpratio\n", "            accept = log_rand[i] > logpratio\n", 1),
    ("c16_mh_accept_halved", "C16", "xitorch/_impls/integrate/mcsamples/mcmc.py",
     "            accept = log_rand[i] < logpratio\n", "            accept = log_rand[i] < 2 * logpratio\n", 1),
    ("c16_mh_uphill_not_always", "C16", "xitorch/_impls/integrate/mcsamples/mcmc.py",
     "        if logpratio > 0:\n            accept = True\n", "        if logpratio > 0:\n            accept = log_rand[i] < -logpratio\n", 1),
    ("c16_mh_step_size_ignored_in_sampling", "C16", "xitorch/_impls/integrate/mcsamples/mcmc.py",
     "    samples = _mh_sample(logpfcn, x, pparams, nsamples, step_size, True)\n",
     "    samples = _mh_sample(logpfcn, x, pparams, nsamples, 1.0, True)\n", 1),
    ("c16_weights_not_normalised", "C16", "xitorch/_impls/integrate/mcsamples/mcmc.py",
     "    wsamples = wsamples / wsamples.sum()\n", "    wsamples = wsamples / wsamples.sum() * 1.0001\n", 1),
    ("c16_mh_weights_off_by_one", "C16", "xitorch/_impls/integrate/mcsamples/mcmc.py",
     "    weights = torch.zeros((samples.shape[0],), dtype=dtype, device=device) + (1. / samples.shape[0])\n",
     "    weights = torch.zeros((samples.shape[0],), dtype=dtype, device=device) + (1. / max(samples.shape[0] - 1, 1))\n", 1),
    ("c16_epf_omitted", "C16", "xitorch/integrate/mcquad.py",
     "                dLdef = torch.dot((fout - epf).reshape(-1), grad_epf.reshape(-1))\n",
     "                dLdef = torch.dot((fout).reshape(-1), grad_epf.reshape(-1))\n", 1),
    ("c16_aug_no_create_graph", "C16", "xitorch/integrate/mcquad.py",
     "                dLdthetap = _grad_or_zeros(pout, ptensor_params, dLdef.reshape(pout.shape),\n                                           create_graph=local_grad_enabled)\n",
     "                dLdthetap = _grad_or_zeros(pout, ptensor_params, dLdef.reshape(pout.shape),\n                                           create_graph=False)\n", 1),
    ("c16_backward_resamples_revert", "C16", "xitorch/integrate/mcquad.py",
     "        res = _MCQuad.apply(pure_ffcn2, pure_logpfcn, x0, xsamples, wsamples,\n",
     "        res = _MCQuad.apply(pure_ffcn2, pure_logpfcn, x0, None, None,\n", 1),
    ("c16_unused_raises_revert", "C16", "xitorch/integrate/mcquad.py",
     "                                allow_unused=True)\n    return tuple(torch.zeros_like(p) if g is None else g for (g, p) in zip(grads, params))\n",
     "                                allow_unused=False)\n    return tuple(torch.zeros_like(p) if g is None else g for (g, p) in zip(grads, params))\n", 1),
    ("c16_tuple_components_swapped", "C16", "xitorch/integrate/mcquad.py",
     "        return packer.pack(res)\n", "        return packer.pack(res.flip(0))\n", 1),
    ("c16_nofa_noise_upfront", "C16", "xitorch/_impls/integrate/mcsamples/mcmc.py",
     "    for i in range(nsamples):\n        xnext = x + step_size * torch.randn_like(x)\n",
     "    _noise = torch.randn((nsamples, *x0.shape), dtype=x0.dtype, device=x0.device)\n    for i in range(nsamples):\n        xnext = x + step_size * _noise[i]\n", 0),
    # ---------------- more semantics-preserving rewrites (must stay silent)
    ("c10_nofa_private_rename", "C10", "xitorch/_core/pure_function.py",
     "ALL:_restore_stack", "_rstack_renamed", 0),
    ("c20_nofa_pop_rewrite", "C20", "xitorch/_core/packer.py",
     "        b = tensors.pop(0)\n", "        b = tensors[0]\n        del tensors[0]\n", 0),
    ("c19_nofa_ctx_plain_note", "C19", "xitorch/linalg/solve.py",
     "        ctx.A = A\n", "        ctx.A = A\n        ctx.note = 'kept for debugging'\n", 0),
    ("c17_nofa_never_cache", "C17", "xitorch/grad/jachess.py",
     "            return False\n        return [id(param)",
     "            return False\n        return False and [id(param)", 0),
    # ---------------- reverts of the later repairs
    ("c10_stale_restore_revert", "C10", "xitorch/_core/pure_function.py",
     "        cur_allobjparams = self._get_all_obj_params_init()\n",
     "        cur_allobjparams = self._allobjparams\n", 1),
    ("c10_pergroup_restore_revert", "C10", "xitorch/_core/pure_function.py",
     "            self._set_all_obj_params(old_allobjparams)\n",
     "            self._set_all_obj_params(self._uniq.map_unique_objs(self._uniq.get_unique_objs(old_allobjparams)))\n", 1),
    ("c10_debug_places_revert", "C10", "xitorch/_core/editable_module.py",
     "            for (objdict, key), tensor in zip(all_places, all_tensors):\n                objdict[key] = tensor\n",
     "            _set_tensors(self, copy.copy(all_tensors))\n", 0),
    # (equivalent in generated configurations since 4f47689: the positional restore only differed when running the
    # checked method changed what a fresh traversal finds - the jac operator storing its reconstructed parameter list
    # on itself, which that repair removed; hunted/C11-4/demo.py passes with this revert)
    ("c10_debug_install_outside_try", "C10", "xitorch/_core/editable_module.py",
     "        try:\n            for (objdict, key), tensor in zip(all_places, copy_tensors0):\n                objdict[key] = tensor\n",
     "        for (objdict, key), tensor in zip(all_places, copy_tensors0):\n            objdict[key] = tensor\n        try:\n", 0),
    # (equivalent in reachable configurations: immutable containers are no longer traversed and module parameters
    # are written without parsing names, so the installation itself cannot raise any more)
    ("c17_objparams_stale_revert", "C17", "xitorch/_core/pure_function.py",
     "        return self._uniq.get_unique_objs(self._get_all_obj_params_init())\n\n    def set_objparams",
     "        return self._uniq.get_unique_objs()\n\n    def set_objparams", 1),
    ("c17_shadowed_params_revert", "C17", "xitorch/_core/pure_function.py",
     "        named_params = [(name, p) for (name, p) in named_params if p is not None]\n",
     "        named_params = [(name, p) for (name, p) in named_params if isinstance(p, torch.nn.Parameter)]\n", 1),
    ("c16_bwd_caller_tensors_revert", "C16", "xitorch/integrate/mcquad.py",
     "            fptensor_params_copy = [y.detach().requires_grad_() for y in fptensor_params]\n",
     "            fptensor_params_copy = list(fptensor_params)\n", 1),
    ("c16_only_x0_revert", "C16", "xitorch/integrate/mcquad.py",
     "        if len(fptensor_params) == 0:\n", "        if False:\n", 1),
    ("c19_jac_keeps_params_revert", "C19", "xitorch/grad/jachess.py",
     "        return self.param_sep.reconstruct_params(self.params_tensor)\n",
     "        self.params = self.param_sep.reconstruct_params(self.params_tensor)\n        return self.params\n", 1),
    ("c19_solve_clone_nograd_revert", "C19", "xitorch/linalg/solve.py",     # revert of 8c150a4 (solve half)
     "            params = [p.clone().requires_grad_() if p.requires_grad else p for p in params]\n",
     "            params = [p.clone().requires_grad_() for p in params]\n", 1),
    ("c19_symeig_clone_nograd_revert", "C19", "xitorch/linalg/symeig.py",   # revert of 8c150a4 (symeig half)
     "            params = [p.clone().requires_grad_() if p.requires_grad else p for p in params]\n",
     "            params = [p.clone().requires_grad_() for p in params]\n", 1),
    ("c20_getter_internal_list_revert", "C20", "xitorch/_core/packer.py",
     "            params_tensors = list(params_tensors)\n", "            pass\n", 1),
    ("c20_atomic_revert", "C20", "xitorch/_core/packer.py",
     "ALL: and not _is_atomic(b):", ":", 1),
    ("c11_shape_list_revert", "C11", "xitorch/_core/linop.py",
     "ALL:        if tuple(self.shape[-2:]) != tuple(b.shape[-2:]):", "        if self.shape[-2:] != b.shape[-2:]:", 1),
    ("c11_hermitian_atol_revert", "C11", "xitorch/_core/linop.py",
     "    tol = 1e-8 * torch.sqrt(s.unsqueeze(-1) * s.unsqueeze(-2)) + 1e-5 * absmat\n",
     "    tol = 1e-8 + 1e-5 * absmat\n", 1),
    ("c11_hermitian_global_scale_revert", "C11", "xitorch/_core/linop.py",
     "    tol = 1e-8 * torch.sqrt(s.unsqueeze(-1) * s.unsqueeze(-2)) + 1e-5 * absmat\n",
     "    tol = 1e-8 * absmat.max() + 1e-5 * absmat\n", 1),
    ("c11_zero_operator_adjoint_revert", "C11", "xitorch/_core/linop.py",
     "        if not y.requires_grad:\n", "        if False:\n", 1),
    ("c16_debug_nograd_revert", "C16", "xitorch/_core/editable_module.py",
     "            with torch.enable_grad():\n                output = method(*args, **kwargs)\n",
     "            if True:\n                output = method(*args, **kwargs)\n", 0),
    # (equivalent since f3e339f: with grad recording off the output requires no grad, which the check now reads as
    # "depends on no tensor of the object" instead of raising; only the warnings differ)
    ("c11_bcast_max_revert", "C11", "xitorch/_utils/bcast.py",
     "        res.append(others.pop() if others else 1)\n", "        res.append(max(sizes))\n", 1),
    ("c11_nofa_init_subclass", "C11", "xitorch/_core/linop.py",
     "    def __new__(cls, *args, **kwargs):\n        # check the implemented functions in the class\n",
     "    def __init_subclass__(cls, **kwargs):\n        super().__init_subclass__(**kwargs)\n"
     "        cls._is_mv_implemented = cls.__check_if_implemented(\"_mv\")\n"
     "        cls._is_mm_implemented = cls.__check_if_implemented(\"_mm\")\n"
     "        cls._is_rmv_implemented = cls.__check_if_implemented(\"_rmv\")\n"
     "        cls._is_rmm_implemented = cls.__check_if_implemented(\"_rmm\")\n"
     "        cls._is_fullmatrix_implemented = cls.__check_if_implemented(\"_fullmatrix\")\n"
     "        cls._is_gpn_implemented = cls.__check_if_implemented(\"_getparamnames\")\n"
     "        cls._implementation_checked = True\n\n"
     "    def __new__(cls, *args, **kwargs):\n        # check the implemented functions in the class\n", 0),
]


def apply_mutant(root, relpath, old, new):
    p = os.path.join(root, relpath)
    b = open(p, "rb").read()
    crlf = b"\r\n" in b
    o = old.encode()
    n = new.encode()
    if crlf:
        o = o.replace(b"\n", b"\r\n")
        n = n.replace(b"\n", b"\r\n")
    if old.startswith("ALL:"):
        o = o[4:]
        if b.count(o) < 1:
            raise RuntimeError("pattern does not occur in %s" % relpath)
    elif b.count(o) != 1:
        raise RuntimeError("pattern occurs %d times in %s" % (b.count(o), relpath))
    open(p, "wb").write(b.replace(o, n))


def main():
    ap = argparse.ArgumentParser()
    ap.add_argument("--only", default=None)
    ap.add_argument("--prop", default=None)
    ap.add_argument("--runs", type=int, default=None)
    ap.add_argument("--tier", default="quick")
    a = ap.parse_args()
    sel = [m for m in MUTANTS if (a.only is None or m[0] in a.only.split(",")) and (a.prop is None or m[1] == a.prop)]
    results = []
    for mid, prop, rel, old, new, expect in sel:
        tmp = tempfile.mkdtemp(prefix="xsim_mut_")
        try:
            dst = os.path.join(tmp, "repo")
            shutil.copytree("/repo", dst, ignore=shutil.ignore_patterns(".git", "__pycache__", "doc", "benchmarks", "examples"))
            apply_mutant(dst, rel, old, new)
            cmd = [os.path.join(VERIF, "check"), prop, a.tier, "--no-evidence", "--no-minimise"]
            if a.runs:
                cmd += ["--runs", str(a.runs)]
            env = dict(os.environ)
            env["XSIM_REPO"] = dst
            env.pop("XSIM_PINNED", None)
            t0 = time.time()
            r = subprocess.run(cmd, env=env, capture_output=True, text=True, timeout=3600)
            ok = (r.returncode == 1) if expect == 1 else (r.returncode == 0)
            nviol = [l for l in r.stdout.splitlines() if l.startswith("VIOLATION")]
            first = ""
            for l in r.stdout.splitlines():
                if l.strip().startswith("sig="):
                    first = l.strip()[:200]
                    break
            results.append({"mutant": mid, "property": prop, "expect_exit": expect, "exit": r.returncode,
                            "ok": ok, "violation_classes": len(nviol), "first": first, "wall_s": round(time.time() - t0, 1)})
            print("%-34s %s expect=%d exit=%d classes=%d %.0fs %s" %
                  (mid, "OK  " if ok else "MISS", expect, r.returncode, len(nviol), time.time() - t0, first), flush=True)
            if not ok and r.returncode == 2:
                print(r.stdout[-1500:])
        finally:
            shutil.rmtree(tmp, ignore_errors=True)
    out = os.path.join(HERE, "mutants_last.json")
    prev = []
    if os.path.exists(out):
        try:
            prev = json.load(open(out))
        except Exception:
            prev = []
    done = set(r["mutant"] for r in results)
    merged = [r for r in prev if r["mutant"] not in done] + results
    merged.sort(key=lambda r: (r["property"], r["mutant"]))
    with open(out, "w") as f:
        json.dump(merged, f, indent=1)
    bad = [r for r in results if not r["ok"]]
    print("%d/%d as expected" % (len(results) - len(bad), len(results)))
    return 1 if bad else 0


if __name__ == "__main__":
    sys.exit(main())
