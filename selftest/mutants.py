#!/venv/bin/python
"""Sensitivity self-test: apply one small property-breaking edit at a time to a
scratch copy of /repo (outside /repo and /verif, removed immediately after) and
require the quick tier of the corresponding check to exit 1.  Also runs
semantics-preserving rewrites ("nofa" entries) that must stay at exit 0.

usage: selftest/mutants.py [--only ID[,ID..]] [--prop C10] [--runs N]
"""
import argparse
import json
import os
import shutil
import subprocess
import sys
import tempfile
import time

HERE = os.path.dirname(os.path.abspath(__file__))
VERIF = os.path.dirname(HERE)

# (id, property, file, old, new, expect)   expect: 1 = must be detected, 0 = must stay silent
# old/new are given with \n line ends; they are converted to the file's own line ends.
MUTANTS = [
    # ---------------- C10
    ("c10_no_finally", "C10", "xitorch/_core/pure_function.py",
     "        try:\n            self.set_objparams(objparams)\n            yield\n        finally:\n            self.restore_objparams()\n",
     "        self.set_objparams(objparams)\n        yield\n        self.restore_objparams()\n", 1),
    ("c10_pop0", "C10", "xitorch/_core/pure_function.py",
     "self._restore_stack.pop(-1)", "self._restore_stack.pop(0)", 1),
    ("c10_linop_restore_params", "C10", "xitorch/_core/linop.py",
     "            self.setuniqueparams(methodname, *_orig_params_)\n",
     "            self.setuniqueparams(methodname, *params)\n", 1),
    ("c10_linop_no_finally", "C10", "xitorch/_core/linop.py",
     "        try:\n            _orig_params_ = self.getuniqueparams(methodname)\n            self.setuniqueparams(methodname, *params)\n            yield self\n        finally:\n            self.setuniqueparams(methodname, *_orig_params_)\n",
     "        _orig_params_ = self.getuniqueparams(methodname)\n        self.setuniqueparams(methodname, *params)\n        yield self\n        self.setuniqueparams(methodname, *_orig_params_)\n", 1),
    ("c10_debug_no_restore", "C10", "xitorch/debug/modes.py",
     "        set_debug_mode(True)\n        yield\n    except Exception as e:\n        raise e\n    finally:\n        set_debug_mode(dbg_mode)\n",
     "        set_debug_mode(True)\n        yield\n        set_debug_mode(dbg_mode)\n    except Exception as e:\n        raise e\n", 1),
    ("c10_assertparams_no_finally", "C10", "xitorch/_core/editable_module.py",
     "        finally:\n            # return the original tensor (also if the method raises)\n            all_tensors_copy = copy.copy(all_tensors)\n            _set_tensors(self, all_tensors_copy)\n",
     "        except ZeroDivisionError:\n            pass\n        if True:\n            all_tensors_copy = copy.copy(all_tensors)\n            _set_tensors(self, all_tensors_copy)\n", 1),
    ("c10_restore_skipped_for_nondiff", "C10", "xitorch/_core/pure_function.py",
     "        old_objparams, identical = self._restore_stack.pop(-1)\n        if not identical:\n",
     "        old_objparams, identical = self._restore_stack.pop(-1)\n        if not identical and all(p.requires_grad for p in old_objparams):\n", 1),
    ("c10_setparams_reversed", "C10", "xitorch/_core/editable_module.py",
     "        for name, val in zip(paramnames, params):\n            try:\n                set_attr(self, name, val)\n",
     "        for name, val in zip(paramnames[::-1], params):\n            try:\n                set_attr(self, name, val)\n", 1),
    ("c10_rootfinder_bwd_no_with", "C10", "xitorch/optimize/rootfinder.py",
     "                with ctx.fcn.useobjparams(objparams_copy):\n                    yfcn = fcn(yout, *params_copy)\n",
     "                ctx.fcn.set_objparams(objparams_copy)\n                yfcn = fcn(yout, *params_copy)\n                ctx.fcn.restore_objparams()\n", 1),
    ("c10_attr_order_revert", "C10", "xitorch/_utils/attr.py",
     "    if _is_registered_param(obj, name):\n        obj._parameters[name] = None\n        obj.__dict__.pop(name, None)\n    else:\n        delattr(obj, name)\n",
     "    delattr(obj, name)\n", 1),
    ("c10_quad_lock_not_released", "C10", "xitorch/_core/pure_function.py",
     "        finally:\n            self._state_change_allowed = prev_status\n",
     "        except ZeroDivisionError:\n            pass\n        if True:\n            self._state_change_allowed = prev_status\n", 1),
    ("c10_nofa_exitstack", "C10", "xitorch/_core/pure_function.py",
     "        try:\n            self.set_objparams(objparams)\n            yield\n        finally:\n            self.restore_objparams()\n",
     "        import contextlib as _cl\n        with _cl.ExitStack() as _st:\n            self.set_objparams(objparams)\n            _st.callback(self.restore_objparams)\n            yield\n", 0),
    # ---------------- C19
    ("c19_broyden_lambda", "C19", "xitorch/_impls/optimize/root/_jacobian.py",
     "        # self._reduce = lambda: self.Gm.reduce(self.max_rank)\n",
     "        self._reduce = lambda: self.Gm.reduce(self.max_rank)\n", 1),
    ("c19_ivp_ctx_yt", "C19", "xitorch/integrate/solve_ivp.py",
     "        ctx.pfcn = pfcn\n        ctx.nparams = nparams\n",
     "        ctx.pfcn = pfcn\n        ctx.nparams = nparams\n        ctx.yt_keep = yt\n", 1),
    ("c19_rk_self_capture", "C19", "xitorch/_impls/integrate/ivp/adaptive_rk.py",
     "            self.func = lambda t, y: fcn(t, y.reshape(yshape), *params).reshape(-1)\n",
     "            self.func = lambda t, y: fcn(t, y.reshape(self.yshape), *params).reshape(-1)\n", 1),
    ("c19_rootfinder_ctx_output", "C19", "xitorch/optimize/rootfinder.py",
     "        ctx.fcn = fcn\n\n        # split tensors and non-tensors params\n",
     "        ctx.fcn = fcn\n        ctx.y_keep = y\n\n        # split tensors and non-tensors params\n", 1),
    ("c19_mcquad_module_cache", "C19", "xitorch/integrate/mcquad.py",
     "        epf = _integrate(ffcn, xsamples, wsamples, fparams)\n",
     "        epf = _integrate(ffcn, xsamples, wsamples, fparams)\n        _MCQuad._last = getattr(_MCQuad, '_last', []) + [xsamples]\n", 1),
    ("c19_solve_ctx_cycle", "C19", "xitorch/linalg/solve.py",
     "        ctx.A = A\n", "        ctx.A = A\n        ctx.x_keep = x\n", 1),
    # ---------------- C20
    ("c20_pop_end", "C20", "xitorch/_core/packer.py",
     "        b = tensors.pop(0)\n", "        b = tensors.pop(-1)\n", 1),
    ("c20_inverse_off", "C20", "xitorch/_core/packer.py",
     "            unique_inverse.append(unique_ids[idnum])\n        else:\n",
     "            unique_inverse.append(max(unique_ids[idnum] - 1, 0))\n        else:\n", 1),
    ("c20_no_copy_tensors", "C20", "xitorch/_core/packer.py",
     "                tensors = copy(tensors)\n", "                tensors = tensors\n", 1),
    ("c20_no_memo", "C20", "xitorch/_core/packer.py",
     "            memo = copy(self._tensor_memo)\n            new_obj = deepcopy(self._obj, memo)\n",
     "            new_obj = deepcopy(self._obj)\n", 1),
    ("c20_shared_shape_cache", "C20", "xitorch/_core/packer.py",
     "            self._tensor_shapes = [p.shape for p in params_tensors]\n",
     "            self._tensor_shapes = [p.shape for p in params_tensors]\n            self._unique_tensor_shapes = self._tensor_shapes\n", 1),
    ("c20_zero_tensor_revert", "C20", "xitorch/_core/packer.py",
     "            if len(tensor_shapes) == 0:\n                return deepcopy(self._obj, copy(self._tensor_memo))\n",
     "            if len(tensor_shapes) == 0:\n                return self._obj\n", 1),
    ("c20_no_shape_check", "C20", "xitorch/_core/packer.py",
     "                if tens.shape != shape:\n", "                if False:\n", 1),
    ("c20_init_no_deepcopy", "C20", "xitorch/_core/packer.py",
     "        self._obj = deepcopy(obj, memo)\n", "        self._obj = obj\n", 1),
]


def apply_mutant(root, relpath, old, new):
    p = os.path.join(root, relpath)
    b = open(p, "rb").read()
    crlf = b"\r\n" in b
    o = old.encode()
    n = new.encode()
    if crlf:
        o = o.replace(b"\n", b"\r\n")
        n = n.replace(b"\n", b"\r\n")
    if b.count(o) != 1:
        raise RuntimeError("pattern occurs %d times in %s" % (b.count(o), relpath))
    open(p, "wb").write(b.replace(o, n))


def main():
    ap = argparse.ArgumentParser()
    ap.add_argument("--only", default=None)
    ap.add_argument("--prop", default=None)
    ap.add_argument("--runs", type=int, default=None)
    ap.add_argument("--tier", default="quick")
    a = ap.parse_args()
    sel = [m for m in MUTANTS if (a.only is None or m[0] in a.only.split(",")) and (a.prop is None or m[1] == a.prop)]
    results = []
    for mid, prop, rel, old, new, expect in sel:
        tmp = tempfile.mkdtemp(prefix="xsim_mut_")
        try:
            dst = os.path.join(tmp, "repo")
            shutil.copytree("/repo", dst, ignore=shutil.ignore_patterns(".git", "__pycache__", "doc", "benchmarks", "examples"))
            apply_mutant(dst, rel, old, new)
            cmd = [os.path.join(VERIF, "check"), prop, a.tier, "--no-evidence", "--no-minimise"]
            if a.runs:
                cmd += ["--runs", str(a.runs)]
            env = dict(os.environ)
            env["XSIM_REPO"] = dst
            env.pop("XSIM_PINNED", None)
            t0 = time.time()
            r = subprocess.run(cmd, env=env, capture_output=True, text=True, timeout=3600)
            ok = (r.returncode == 1) if expect == 1 else (r.returncode == 0)
            nviol = [l for l in r.stdout.splitlines() if l.startswith("VIOLATION")]
            first = ""
            for l in r.stdout.splitlines():
                if l.strip().startswith("sig="):
                    first = l.strip()[:200]
                    break
            results.append({"mutant": mid, "property": prop, "expect_exit": expect, "exit": r.returncode,
                            "ok": ok, "violation_classes": len(nviol), "first": first, "wall_s": round(time.time() - t0, 1)})
            print("%-34s %s expect=%d exit=%d classes=%d %.0fs %s" %
                  (mid, "OK  " if ok else "MISS", expect, r.returncode, len(nviol), time.time() - t0, first), flush=True)
            if not ok and r.returncode == 2:
                print(r.stdout[-1500:])
        finally:
            shutil.rmtree(tmp, ignore_errors=True)
    out = os.path.join(HERE, "mutants_last.json")
    with open(out, "w") as f:
        json.dump(results, f, indent=1)
    bad = [r for r in results if not r["ok"]]
    print("%d/%d as expected" % (len(results) - len(bad), len(results)))
    return 1 if bad else 0


if __name__ == "__main__":
    sys.exit(main())
